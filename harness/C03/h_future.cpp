// C03 (the state at step k depends only on input up to step k): creating a well from WELSPECS at report step 0
// (HandlerContext::welspecsCreateNewWell -> Schedule::addWell / addWellToGroup) on two schedules whose CURRENT block is identical and whose
// LATER block differs (one of them holds a COMPORD record for the new well): the resulting step-0 state must be the same.
#include <string>
#include <vector>
#include <memory>
#include <set>
#include <unordered_map>
#define private public
#define protected public
#include <opm/input/eclipse/Schedule/Schedule.hpp>
#include <opm/input/eclipse/Schedule/ScheduleState.hpp>
#include <opm/input/eclipse/Schedule/ScheduleDeck.hpp>
#undef private
#undef protected
#include "two_step.h"
#include <opm/input/eclipse/Schedule/ScheduleBlock.hpp>
#include <opm/input/eclipse/Schedule/Well/PAvg.hpp>
#include <opm/input/eclipse/Schedule/Well/WellConnections.hpp>
#include <opm/input/eclipse/Parser/ParserKeywords/W.hpp>
#ifndef VERIF_NATIVE
const std::string Opm::ParserKeywords::WELSPECS::CROSSFLOW::itemName = "CROSSFLOW";
const std::string Opm::ParserKeywords::WELSPECS::AUTO_SHUTIN::itemName = "AUTO_SHUTIN";
const std::string Opm::ParserKeywords::WELSPECS::GROUP::itemName = "GROUP";
const std::string Opm::ParserKeywords::WELSPECS::P_TABLE::itemName = "P_TABLE";
const std::string Opm::ParserKeywords::WELSPECS::INFLOW_EQ::itemName = "INFLOW_EQ";
#endif
static DeckItem iitem(const char* n, int v) { DeckItem it(n, int()); it.push_back(v); return it; }
static DeckRecord welspecs_record(const char* well, int hi, int hj) {
    std::vector<DeckItem> items;
    items.push_back(sitem("WELL", well)); items.push_back(sitem("GROUP", "G1")); items.push_back(iitem("HEAD_I", hi)); items.push_back(iitem("HEAD_J", hj));
    items.push_back(ditem("REF_DEPTH", 1000.0)); items.push_back(sitem("PHASE", "OIL")); items.push_back(ditem("D_RADIUS", 0.0)); items.push_back(sitem("INFLOW_EQ", "STD"));
    items.push_back(sitem("AUTO_SHUTIN", "SHUT")); items.push_back(sitem("CROSSFLOW", "YES")); items.push_back(iitem("P_TABLE", 0));
    return DeckRecord(std::move(items));
}
static Schedule* prepared(int slot, bool future_compord, const char* future_order) {
    Schedule* s = two_step_schedule(slot);
    s->snapshots.pop_back();                                   // report step 0 is the current (last) state
    new (&s->m_static.m_unit_system) UnitSystem(UnitSystem::newMETRIC());
    s->snapshots[0].pavg.update(PAvg());
    new (&s->m_sched_deck.m_blocks) std::vector<ScheduleBlock>();
    s->m_sched_deck.m_blocks.emplace_back(KeywordLocation{}, ScheduleTimeType::START, TimeService::from_time_t(0));
    s->m_sched_deck.m_blocks.emplace_back(KeywordLocation{}, ScheduleTimeType::DATES, TimeService::from_time_t(86400));
    if (future_compord) {
        DeckKeyword kw(KeywordLocation{}, "COMPORD"); std::vector<DeckItem> items; items.push_back(sitem("WELL", "P3")); items.push_back(sitem("ORDER_TYPE", future_order)); kw.addRecord(DeckRecord(std::move(items)));
        s->m_sched_deck.m_blocks[1].push_back(kw);
    }
    return s;
}
static void create(Schedule* s, int hi, int hj) {
    DeckKeyword kw(KeywordLocation{}, "WELSPECS"); kw.addRecord(welspecs_record("P3", hi, hj));
    Ctx c;
    HandlerContext hc(*s, s->m_sched_deck.m_blocks[0], kw, none<ScheduleGrid>(), 0, c.matches, false, c.pc, c.eg, nullptr, nullptr, c.wpimult, nullptr, nullptr);
    hc.welspecsCreateNewWell(kw.getRecord(0), "P3", "G1");
}
extern "C" void h_future_block(void) {
    int hi = nondet_int(), hj = nondet_int(); ASSUME(hi >= 1 && hi <= 20 && hj >= 1 && hj <= 20);
    Schedule* A = prepared(0, false, "");
    Schedule* B = prepared(1, true, nondet_bool() ? "INPUT" : "DEPTH");
    create(A, hi, hj); create(B, hi, hj);
    const Well& a = A->snapshots[0].wells.get("P3"); const Well& b = B->snapshots[0].wells.get("P3");
    CHECK(a.getConnections().ordering() == b.getConnections().ordering());                  // nothing from the later block
    CHECK(a.getConnections().ordering() == Connection::Order::TRACK);                      // the current block has no COMPORD: the default
    CHECK(a.getHeadI() == hi - 1 && a.getHeadJ() == hj - 1 && b.getHeadI() == hi - 1 && b.getHeadJ() == hj - 1);
    CHECK(a.groupName() == "G1" && b.groupName() == "G1");
    CHECK(A->snapshots[0].groups.get("G1").hasWell("P3") && B->snapshots[0].groups.get("G1").hasWell("P3"));
    CHECK(A->snapshots[0].well_order().has("P3") && B->snapshots[0].well_order().has("P3"));
}
