// C03 (keyword handlers): a real keyword handler is run against report step 1 of a two-step history whose states share their objects the
// way Schedule::create_next shares them (ScheduleState(src, start_time)); afterwards every query on report step 0 must answer as before:
// a handler that modifies the object it fetched from the current state in place - instead of copying it and calling update() - changes the
// past.  Handler here: GEFAC (group efficiency factor).
#include <string>
#include <vector>
#include <memory>
#include <set>
#include <unordered_map>
#define private public
#define protected public
#include <opm/input/eclipse/Schedule/Schedule.hpp>
#include <opm/input/eclipse/Schedule/ScheduleState.hpp>
#undef private
#undef protected
#include "/repo/opm/input/eclipse/Schedule/Group/GroupKeywordHandlers.cpp"
#include "two_step.h"
extern "C" void h_gefac(void) {
    Schedule* sched = two_step_schedule();
    const Group* addr0 = &sched->snapshots[0].groups.get("G2");
    const double ef0 = sched->snapshots[0].groups.get("G2").getGroupEfficiencyFactor();
    const double ef = verif_nondet_real(); ASSUME(ef > 0 && ef <= 1 && ef != ef0);
    DeckKeyword kw(KeywordLocation{}, "GEFAC");
    { std::vector<DeckItem> items; items.push_back(sitem("GROUP", "G2")); items.push_back(ditem("EFFICIENCY_FACTOR", ef)); items.push_back(sitem("TRANSFER_EXT_NET", "YES")); kw.addRecord(DeckRecord(std::move(items))); }
    Ctx c; HandlerContext hc = mkcontext(*sched, kw, c);
    handleGEFAC(hc);
    CEQ(sched->snapshots[1].groups.get("G2").getGroupEfficiencyFactor(), ef);
    const Group& g0 = sched->snapshots[0].groups.get("G2");
    CHECK(&g0 == addr0); CEQ(g0.getGroupEfficiencyFactor(), ef0);
    CHECK(&sched->snapshots[1].groups.get("G2") != addr0);
    CHECK(&sched->snapshots[1].groups.get("G1") == &sched->snapshots[0].groups.get("G1"));
    CHECK(&sched->snapshots[1].wells.get("P1") == &sched->snapshots[0].wells.get("P1"));
}
