// C03 (keyword handlers): a real keyword handler is run against report step 1 of a two-step history whose states share their objects the
// way Schedule::create_next shares them (ScheduleState(src, start_time)); afterwards every query on report step 0 must answer as before:
// a handler that modifies the object it fetched from the current state in place - instead of copying it and calling update() - changes the
// past.  Handler here: WEFAC (well efficiency factor).
#include <string>
#include <vector>
#include <memory>
#include <set>
#include <unordered_map>
#define private public
#define protected public
#include <opm/input/eclipse/Schedule/Schedule.hpp>
#include <opm/input/eclipse/Schedule/ScheduleState.hpp>
#undef private
#undef protected
#include "/repo/opm/input/eclipse/Schedule/Well/WellPropertiesKeywordHandlers.cpp"
#include "two_step.h"
extern "C" void h_wefac(void) {
    Schedule* sched = two_step_schedule();
    const Well* addr0 = &sched->snapshots[0].wells.get("P2");
    const double ef0 = sched->snapshots[0].wells.get("P2").getEfficiencyFactor();
    const double ef = verif_nondet_real(); ASSUME(ef > 0 && ef <= 1 && ef != ef0);
    DeckKeyword kw(KeywordLocation{}, "WEFAC");
    { std::vector<DeckItem> items; items.push_back(sitem("WELLNAME", "P2")); items.push_back(ditem("EFFICIENCY_FACTOR", ef)); kw.addRecord(DeckRecord(std::move(items))); }
    Ctx c; HandlerContext hc = mkcontext(*sched, kw, c);
    handleWEFAC(hc);
    CEQ(sched->snapshots[1].wells.get("P2").getEfficiencyFactor(), ef);                                  // the later step sees the keyword
    const Well& w0 = sched->snapshots[0].wells.get("P2");
    CHECK(&w0 == addr0); CEQ(w0.getEfficiencyFactor(), ef0);                                             // the earlier one does not
    CHECK(&sched->snapshots[1].wells.get("P2") != addr0);
    CHECK(&sched->snapshots[1].wells.get("P1") == &sched->snapshots[0].wells.get("P1"));                   // the untouched well is still shared
    CHECK(sched->snapshots[1].events().hasEvent(ScheduleEvents::WELLGROUP_EFFICIENCY_UPDATE)); CHECK(!sched->snapshots[0].events().hasEvent(ScheduleEvents::WELLGROUP_EFFICIENCY_UPDATE));
}
