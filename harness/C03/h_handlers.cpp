// C03 (keyword handlers): a real keyword handler is run against report step 1 of a two-step history whose states share their objects the
// way Schedule::create_next shares them (ScheduleState(src, start_time)); afterwards every query on report step 0 must answer as before:
// a handler that modifies the object it fetched from the current state in place - instead of copying it and calling update() - changes the
// past.  Handlers: WGRUPCON (guide rate of a well), WEFAC-style well update through Well::updateEfficiencyFactor.
#include <string>
#include <vector>
#include <memory>
#include <set>
#include <unordered_map>
#define private public
#define protected public
#include <opm/input/eclipse/Schedule/Schedule.hpp>
#include <opm/input/eclipse/Schedule/ScheduleState.hpp>
#undef private
#undef protected
#include "/repo/opm/input/eclipse/Schedule/Group/GuideRateKeywordHandlers.cpp"
#include <opm/input/eclipse/Schedule/HandlerContext.hpp>
#include <opm/input/eclipse/Schedule/Well/NameOrder.hpp>
#include <opm/input/eclipse/Schedule/Well/WListManager.hpp>
#include <opm/input/eclipse/Schedule/RFTConfig.hpp>
#include <opm/input/eclipse/Schedule/UDQ/UDQConfig.hpp>
#include <opm/input/eclipse/Schedule/UDQ/UDQParams.hpp>
#include <opm/input/eclipse/Schedule/RSTConfig.hpp>
#include <opm/input/eclipse/Schedule/Action/ActionResult.hpp>
#include <opm/input/eclipse/Schedule/ScheduleGrid.hpp>
#include <opm/input/eclipse/Schedule/ScheduleBlock.hpp>
#include <opm/input/eclipse/Parser/ParseContext.hpp>
#include <opm/input/eclipse/Parser/ErrorGuard.hpp>
#include <opm/input/eclipse/Deck/DeckKeyword.hpp>
#include <opm/input/eclipse/Units/UnitSystem.hpp>
#include <opm/common/utility/TimeService.hpp>
#include <verif.h>
#ifndef VERIF_NATIVE
#include <opm/input/eclipse/Parser/ParserKeywords/W.hpp>
const std::string Opm::ParserKeywords::WPAVE::DEPTH_CORRECTION::defaultValue = "WELL";
const std::string Opm::ParserKeywords::WPAVE::CONNECTION::defaultValue = "OPEN";
#endif
using namespace Opm;
#define CEQ(a, b) CHECK(EQ((a), (b)))
alignas(16) static unsigned char sched_storage[sizeof(Schedule)];
alignas(16) static unsigned char dummy[8192];
template <class T> static T& none() { return *reinterpret_cast<T*>(dummy); }
static Well mkwell(const char* name) {
    static const UnitSystem units = UnitSystem::newMETRIC();
    return Well(name, "G1", 0, 0, 1, 1, 100.0, WellType(true, Phase::OIL), Well::ProducerCMode::ORAT, Connection::Order::TRACK, units, -1.0, 0.0, true, true, 0, Well::GasInflowEquation::STD);
}
static DeckItem sitem(const char* n, const char* v) { DeckItem it(n, std::string()); it.push_back(std::string(v)); return it; }
static DeckItem ditem(const char* n, double v) { DeckItem it(n, double(), { Dimension(1.0) }, { Dimension(1.0) }); it.push_back(v); return it; }
extern "C" void h_wgrupcon(void) {
    // report step 0 with two wells, then report step 1 created from it the way the schedule does
    Schedule* sched = reinterpret_cast<Schedule*>(sched_storage);
    new (&sched->snapshots) std::vector<ScheduleState>();
    new (&sched->action_wgnames) Action::WGNames();
    ScheduleState s0(TimeService::from_time_t(0));
    s0.rft_config.update(RFTConfig()); s0.rst_config.update(RSTConfig()); s0.guide_rate.update(GuideRateConfig()); s0.wlist_manager.update(WListManager()); s0.udq.update(UDQConfig(UDQParams()));
    { NameOrder order; order.add("P1"); order.add("P2"); s0.well_order.update(std::move(order)); }
    s0.wells.update(mkwell("P1")); s0.wells.update(mkwell("P2"));
    sched->snapshots.push_back(s0);
    sched->snapshots.emplace_back(sched->snapshots[0], TimeService::from_time_t(86400));
    // what report step 0 answers before the keyword
    const Well& w0_before = sched->snapshots[0].wells.get("P1");
    const Well* addr0 = &w0_before;
    const bool avail0 = w0_before.isAvailableForGroupControl(); const double gr0 = w0_before.getGuideRate(); const double sf0 = w0_before.getGuideRateScalingFactor();
    CHECK(&sched->snapshots[1].wells.get("P1") == addr0);                     // shared until modified
    // WGRUPCON P1 YES <rate> OIL <factor> /   at report step 1
    const double rate = verif_nondet_real(), factor = verif_nondet_real(); ASSUME(rate > 0 && factor > 0 && rate != gr0);
    DeckKeyword kw(KeywordLocation{}, "WGRUPCON");
    { std::vector<DeckItem> items; items.push_back(sitem("WELL", "P1")); items.push_back(sitem("GROUP_CONTROLLED", "YES")); items.push_back(ditem("GUIDE_RATE", rate)); items.push_back(sitem("PHASE", "OIL")); items.push_back(ditem("SCALING_FACTOR", factor));
      kw.addRecord(DeckRecord(std::move(items))); }
    ParseContext pc; ErrorGuard eg; Action::Result::MatchingEntities matches; std::unordered_map<std::string, double> wpimult;
    HandlerContext hc(*sched, none<ScheduleBlock>(), kw, none<ScheduleGrid>(), 1, matches, false, pc, eg, nullptr, nullptr, wpimult, nullptr, nullptr);
    handleWGRUPCON(hc);
    // report step 1 sees the keyword ...
    const Well& w1 = sched->snapshots[1].wells.get("P1");
    CHECK(w1.isAvailableForGroupControl()); CEQ(w1.getGuideRate(), rate); CEQ(w1.getGuideRateScalingFactor(), factor);
    // ... report step 0 does not: same object, same answers; the other well is still shared
    const Well& w0 = sched->snapshots[0].wells.get("P1");
    CHECK(&w0 == addr0); CHECK(w0.isAvailableForGroupControl() == avail0); CEQ(w0.getGuideRate(), gr0); CEQ(w0.getGuideRateScalingFactor(), sf0);
    CHECK(&w1 != &w0);
    CHECK(&sched->snapshots[1].wells.get("P2") == &sched->snapshots[0].wells.get("P2"));
    CHECK(!sched->snapshots[0].guide_rate().has_well("P1")); CHECK(sched->snapshots[1].guide_rate().has_well("P1"));
}
