// C03 (keyword handlers): a real keyword handler is run against report step 1 of a two-step history whose states share their objects the
// way Schedule::create_next shares them (ScheduleState(src, start_time)); afterwards every query on report step 0 must answer as before:
// a handler that modifies the object it fetched from the current state in place - instead of copying it and calling update() - changes the
// past.  Handlers: WGRUPCON (guide rate of a well), WEFAC-style well update through Well::updateEfficiencyFactor.
#include <string>
#include <vector>
#include <memory>
#include <set>
#include <unordered_map>
#define private public
#define protected public
#include <opm/input/eclipse/Schedule/Schedule.hpp>
#include <opm/input/eclipse/Schedule/ScheduleState.hpp>
#undef private
#undef protected
#include "/repo/opm/input/eclipse/Schedule/Group/GuideRateKeywordHandlers.cpp"
#include "two_step.h"
extern "C" void h_wgrupcon(void) {
    Schedule* sched = two_step_schedule();
    // what report step 0 answers before the keyword
    const Well& w0_before = sched->snapshots[0].wells.get("P1");
    const Well* addr0 = &w0_before;
    const bool avail0 = w0_before.isAvailableForGroupControl(); const double gr0 = w0_before.getGuideRate(); const double sf0 = w0_before.getGuideRateScalingFactor();
    CHECK(&sched->snapshots[1].wells.get("P1") == addr0);                     // shared until modified
    // WGRUPCON P1 YES <rate> OIL <factor> /   at report step 1
    const double rate = verif_nondet_real(), factor = verif_nondet_real(); ASSUME(rate > 0 && factor > 0 && rate != gr0);
    DeckKeyword kw(KeywordLocation{}, "WGRUPCON");
    { std::vector<DeckItem> items; items.push_back(sitem("WELL", "P1")); items.push_back(sitem("GROUP_CONTROLLED", "YES")); items.push_back(ditem("GUIDE_RATE", rate)); items.push_back(sitem("PHASE", "OIL")); items.push_back(ditem("SCALING_FACTOR", factor));
      kw.addRecord(DeckRecord(std::move(items))); }
    Ctx c; HandlerContext hc = mkcontext(*sched, kw, c);
    handleWGRUPCON(hc);
    // report step 1 sees the keyword ...
    const Well& w1 = sched->snapshots[1].wells.get("P1");
    CHECK(w1.isAvailableForGroupControl()); CEQ(w1.getGuideRate(), rate); CEQ(w1.getGuideRateScalingFactor(), factor);
    // ... report step 0 does not: same object, same answers; the other well is still shared
    const Well& w0 = sched->snapshots[0].wells.get("P1");
    CHECK(&w0 == addr0); CHECK(w0.isAvailableForGroupControl() == avail0); CEQ(w0.getGuideRate(), gr0); CEQ(w0.getGuideRateScalingFactor(), sf0);
    CHECK(&w1 != &w0);
    CHECK(&sched->snapshots[1].wells.get("P2") == &sched->snapshots[0].wells.get("P2"));
    CHECK(!sched->snapshots[0].guide_rate().has_well("P1")); CHECK(sched->snapshots[1].guide_rate().has_well("P1"));
}
