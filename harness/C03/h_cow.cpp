// C03 (narrow claim): the copy-on-write mechanism that keeps earlier report steps immutable - ScheduleState::ptr_member<T> and
// map_member<K,T>: after "next = prev; next.member.update(v)" every query on prev returns what it returned before, untouched
// members of next still share prev's object.  The templates' real source is instantiated with small value types.
#include <string>
#include <vector>
#include <memory>
#include <unordered_map>
#include <verif.h>
#include <opm/input/eclipse/Schedule/ScheduleState.hpp>
using Opm::ScheduleState;
struct Val { double v; int tag; bool operator==(const Val& o) const { return v == o.v && tag == o.tag; } };
struct Item { int key; double v; const int& name() const { return key; } bool operator==(const Item& o) const { return key == o.key && v == o.v; } };
#define CEQ(a, b) CHECK(EQ((a), (b)))
extern "C" void h_ptr_member(void) {
    double a = verif_nondet_real(), b = verif_nondet_real(); int t1 = nondet_int(), t2 = nondet_int();
    ScheduleState::ptr_member<Val> prev; prev.update(Val{ a, t1 });
    const Val* addr = &prev.get();
    ScheduleState::ptr_member<Val> next = prev;                 // what create_next does: the new state is a copy of the previous one
    CHECK(&next.get() == addr);                                 // shared until replaced
    next.update(Val{ b, t2 });                                  // a handler replaces the member in the new state
    CEQ(prev.get().v, a); CHECK(prev.get().tag == t1); CHECK(&prev.get() == addr);      // the earlier state is untouched
    CEQ(next.get().v, b); CHECK(next.get().tag == t2); CHECK(&next.get() != addr);
    CEQ(prev().v, a); CEQ(next().v, b);
    ScheduleState::ptr_member<Val> third; third.update(prev);   // re-share an existing instance
    CHECK(&third.get() == addr);
    third.update(Val{ b, t2 }); CEQ(prev.get().v, a);
}
extern "C" void h_map_member(void) {
    double a = verif_nondet_real(), b = verif_nondet_real(), c = verif_nondet_real(), d = verif_nondet_real();
    ScheduleState::map_member<int, Item> prev;
    prev.update(Item{ 1, a }); prev.update(Item{ 2, b });
    const Item* p1 = &prev.get(1); const Item* p2 = &prev.get(2);
    ScheduleState::map_member<int, Item> next = prev;
    CHECK(&next.get(1) == p1 && &next.get(2) == p2 && next.size() == 2);
    next.update(Item{ 1, c });                                   // modify entry 1 in the new state only
    next.update(Item{ 3, d });                                   // add an entry in the new state only
    CEQ(prev.get(1).v, a); CEQ(prev.get(2).v, b); CHECK(prev.size() == 2 && !prev.has(3) && prev.has(1) && prev.has(2));
    CHECK(&prev.get(1) == p1 && &prev.get(2) == p2);
    CEQ(next.get(1).v, c); CEQ(next.get(3).v, d); CHECK(next.size() == 3);
    CHECK(&next.get(2) == p2);                                  // the untouched entry is still shared
    CHECK(&next.get(1) != p1);
    CEQ(prev(1).v, a); CEQ(next(1).v, c);
    CHECK(prev.get_ptr(3) == nullptr); CHECK(next.get_ptr(2).get() == p2);
    bool threw = false; try { prev.get(3); } catch (const std::out_of_range&) { threw = true; } CHECK(threw);
    ScheduleState::map_member<int, Item> other; threw = false; try { other.update(7, prev); } catch (const std::logic_error&) { threw = true; } CHECK(threw);
    other.update(2, prev); CHECK(&other.get(2) == p2);
    CHECK((prev == next) == false);
    ScheduleState::map_member<int, Item> same = prev; CHECK(prev == same);
    CHECK(prev.keys().size() == 2 && next.keys().size() == 3);
    CHECK(prev.find([](const auto& kv) { return kv.first == 2; }) == p2); CHECK(prev.find([](const auto& kv) { return kv.first == 9; }) == nullptr);
}
