EXPLANATION = ('C03 (narrow): the snapshot copy-on-write mechanism - ScheduleState::ptr_member<T> and ScheduleState::map_member<K,T> (update, get, operator(), copy, get_ptr, has, find, ==) - instantiated from the real header '
  'with small value types and executed with symbolic contents: replacing a member in the copy never changes what the earlier state returns, untouched members stay shared.')
BOUNDS = 'maps of 2-3 entries with fixed keys, symbolic values'
OUTSIDE = 'keyword handlers other than the one executed here (WGRUPCON) - each handler\'s fetch-copy-modify-update discipline would need its own run -, iterateScheduleSection, ScheduleDeck\'s DATES/TSTEP partition'
ASSUMPTIONS = ['std::unordered_map rehash policy modelled (grow when elements exceed buckets)', 'doubles as reals']
HT = ['opm/input/eclipse/Schedule/%s.cpp' % n for n in ('Schedule', 'ScheduleState', 'HandlerContext', 'ScheduleTypes', 'RFTConfig', 'RSTConfig', 'Events', 'ScheduleGrid', 'CompletedCells', 'eval_uda', 'SummaryState', 'Tuning',
      'OilVaporizationProperties', 'GasLiftOpt', 'WriteRestartFileEvents', 'VFPProdTable', 'VFPInjTable', 'ScheduleStatic', 'ScheduleDeck', 'ScheduleBlock', 'MessageLimits')] + [
      'opm/input/eclipse/Schedule/Well/%s.cpp' % n for n in ('Well', 'NameOrder', 'WListManager', 'WList', 'WellMatcher', 'Connection', 'WDFAC', 'WINJMULT', 'WVFPDP', 'WVFPEXP', 'WellBrineProperties', 'WellConnections',
      'WellEconProductionLimits', 'WellEnums', 'WellFoamProperties', 'WellInjectionProperties', 'WellMICPProperties', 'WellPolymerProperties', 'WellProductionProperties', 'WellTracerProperties', 'FilterCake', 'PAvg', 'WellTestConfig', 'injection')] + [
      'opm/input/eclipse/Schedule/Group/%s.cpp' % n for n in ('GuideRateConfig', 'GuideRateModel', 'Group', 'GConSale', 'GConSump', 'GroupEconProductionLimits', 'GTNode')] + [
      'opm/input/eclipse/Schedule/MSW/WellSegments.cpp', 'opm/input/eclipse/Schedule/MSW/Segment.cpp', 'opm/input/eclipse/Schedule/Action/ActionResult.cpp', 'opm/input/eclipse/Schedule/Action/WGNames.cpp', 'opm/input/eclipse/Schedule/Action/Actions.cpp',
      'opm/input/eclipse/Deck/DeckKeyword.cpp', 'opm/input/eclipse/Deck/DeckRecord.cpp', 'opm/input/eclipse/Deck/DeckItem.cpp', 'opm/input/eclipse/Deck/UDAValue.cpp', 'opm/input/eclipse/Units/UnitSystem.cpp', 'opm/input/eclipse/Units/Dimension.cpp',
      'opm/input/eclipse/EclipseState/Phase.cpp', 'opm/input/eclipse/Parser/ParseContext.cpp', 'opm/input/eclipse/Parser/ErrorGuard.cpp', 'opm/common/utility/String.cpp', 'opm/common/utility/TimeService.cpp', 'opm/common/utility/shmatch.cpp',
      'opm/common/OpmLog/KeywordLocation.cpp', 'opm/input/eclipse/EclipseState/Runspec.cpp'] + ['opm/input/eclipse/Schedule/UDQ/%s.cpp' % n for n in ('UDQASTNode', 'UDQActive', 'UDQAssign', 'UDQConfig', 'UDQContext', 'UDQDefine', 'UDQEnums', 'UDQFunction', 'UDQFunctionTable', 'UDQInput', 'UDQParams', 'UDQParser', 'UDQSet', 'UDQState', 'UDQToken', 'UDT')]
def jobs(tier):
    return [dict(name='cow', src='h_cow.cpp', defs={}, entry='h_ptr_member,h_map_member', tus=[], fp='real', loopmax=2000, maxsteps=4000000),
            dict(name='handler_wgrupcon', src='h_handlers.cpp', defs={}, entry='h_wgrupcon', tus=HT, fp='real', loopmax=100000, maxsteps=400000000, timeout=1500, opts=['--ctors'],
                 bounds='two report steps sharing two wells; WGRUPCON for one well at the later step with symbolic guide rate and scaling factor'),
            dict(name='handler_wefac', src='h_handlers_well.cpp', defs={}, entry='h_wefac', tus=HT, fp='real', loopmax=100000, maxsteps=400000000, timeout=1500, opts=['--ctors'],
                 bounds='two report steps sharing two wells; WEFAC for one well at the later step with a symbolic efficiency factor'),
            dict(name='handler_gefac', src='h_handlers_group.cpp', defs={}, entry='h_gefac', tus=HT, fp='real', loopmax=100000, maxsteps=400000000, timeout=1500, opts=['--ctors'],
                 bounds='two report steps sharing two groups and two wells; GEFAC for one group at the later step with a symbolic efficiency factor'),
            dict(name='future_block_welspecs', src='h_future.cpp', defs={}, entry='h_future_block', tus=HT, fp='real', loopmax=100000, maxsteps=400000000, timeout=1500, opts=['--ctors'],
                 bounds='a well created from WELSPECS at step 0 (symbolic head cell) on two schedules that differ only in the LATER schedule block (COMPORD for that well or not)')]
