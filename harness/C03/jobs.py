EXPLANATION = ('C03 (narrow): the snapshot copy-on-write mechanism - ScheduleState::ptr_member<T> and ScheduleState::map_member<K,T> (update, get, operator(), copy, get_ptr, has, find, ==) - instantiated from the real header '
  'with small value types and executed with symbolic contents: replacing a member in the copy never changes what the earlier state returns, untouched members stay shared.')
BOUNDS = 'maps of 2-3 entries with fixed keys, symbolic values'
OUTSIDE = 'the larger part of the property: every keyword handler\'s fetch-copy-modify-update discipline, iterateScheduleSection, ScheduleDeck\'s DATES/TSTEP partition; a handler that mutates through a shared pointer (e.g. via the non-const map_member::get) is NOT seen by this check'
ASSUMPTIONS = ['std::unordered_map rehash policy modelled (grow when elements exceed buckets)', 'doubles as reals']
def jobs(tier):
    return [dict(name='cow', src='h_cow.cpp', defs={}, entry='h_ptr_member,h_map_member', tus=[], fp='real', loopmax=2000, maxsteps=4000000)]
