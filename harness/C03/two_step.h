// shared by the C03 handler harnesses: a two-step history built the way the schedule builds it
#pragma once
#include <opm/input/eclipse/Schedule/HandlerContext.hpp>
#include <opm/input/eclipse/Schedule/Well/NameOrder.hpp>
#include <opm/input/eclipse/Schedule/Group/GuideRateConfig.hpp>
#include <opm/input/eclipse/Schedule/Group/Group.hpp>
#include <opm/input/eclipse/Schedule/Well/Well.hpp>
#include <opm/input/eclipse/Schedule/Events.hpp>
#include <opm/input/eclipse/Schedule/Well/WListManager.hpp>
#include <opm/input/eclipse/Schedule/RFTConfig.hpp>
#include <opm/input/eclipse/Schedule/UDQ/UDQConfig.hpp>
#include <opm/input/eclipse/Schedule/UDQ/UDQParams.hpp>
#include <opm/input/eclipse/Schedule/RSTConfig.hpp>
#include <opm/input/eclipse/Schedule/Action/ActionResult.hpp>
#include <opm/input/eclipse/Schedule/ScheduleGrid.hpp>
#include <opm/input/eclipse/Schedule/ScheduleBlock.hpp>
#include <opm/input/eclipse/Parser/ParseContext.hpp>
#include <opm/input/eclipse/Parser/ErrorGuard.hpp>
#include <opm/input/eclipse/Deck/DeckKeyword.hpp>
#include <opm/input/eclipse/Units/UnitSystem.hpp>
#include <opm/common/utility/TimeService.hpp>
#include <verif.h>
#ifndef VERIF_NATIVE
#include <opm/input/eclipse/Parser/ParserKeywords/W.hpp>
const std::string Opm::ParserKeywords::WPAVE::DEPTH_CORRECTION::defaultValue = "WELL";
const std::string Opm::ParserKeywords::WPAVE::CONNECTION::defaultValue = "OPEN";
#endif
using namespace Opm;
#define CEQ(a, b) CHECK(EQ((a), (b)))
alignas(16) static unsigned char sched_storage[2][sizeof(Schedule)];
alignas(16) static unsigned char dummy[8192];
template <class T> static T& none() { return *reinterpret_cast<T*>(dummy); }
static Well mkwell(const char* name) {
    static const UnitSystem units = UnitSystem::newMETRIC();
    return Well(name, "G1", 0, 0, 1, 1, 100.0, WellType(true, Phase::OIL), Well::ProducerCMode::ORAT, Connection::Order::TRACK, units, -1.0, 0.0, true, true, 0, Well::GasInflowEquation::STD);
}
static DeckItem sitem(const char* n, const char* v) { DeckItem it(n, std::string()); it.push_back(std::string(v)); return it; }
static DeckItem ditem(const char* n, double v) { DeckItem it(n, double(), { Dimension(1.0) }, { Dimension(1.0) }); it.push_back(v); return it; }
static Schedule* two_step_schedule(int slot = 0) {
    // report step 0 with two wells, then report step 1 created from it the way Schedule::create_next does
    Schedule* sched = reinterpret_cast<Schedule*>(sched_storage[slot]);
    new (&sched->snapshots) std::vector<ScheduleState>();
    new (&sched->action_wgnames) Action::WGNames();
    ScheduleState s0(TimeService::from_time_t(0));
    s0.rft_config.update(RFTConfig()); s0.rst_config.update(RSTConfig()); s0.guide_rate.update(GuideRateConfig()); s0.wlist_manager.update(WListManager()); s0.udq.update(UDQConfig(UDQParams()));
    { NameOrder order; order.add("P2"); order.add("P1"); s0.well_order.update(std::move(order)); }      // declaration order differs from alphabetical order
    { GroupOrder go(10); go.add("FIELD"); go.add("G1"); go.add("G2"); s0.group_order.update(std::move(go)); }
    { static const UnitSystem gunits = UnitSystem::newMETRIC(); s0.groups.update(Group("G1", 1, 0.0, gunits)); s0.groups.update(Group("G2", 2, 0.0, gunits)); s0.wellgroup_events().addGroup("G1"); s0.wellgroup_events().addGroup("G2"); }
    s0.wells.update(mkwell("P1")); s0.wells.update(mkwell("P2")); s0.wellgroup_events().addWell("P1"); s0.wellgroup_events().addWell("P2");
    sched->snapshots.push_back(s0);
    sched->snapshots.emplace_back(sched->snapshots[0], TimeService::from_time_t(86400));
    return sched;
}
struct Ctx { ParseContext pc; ErrorGuard eg; Action::Result::MatchingEntities matches; std::unordered_map<std::string, double> wpimult; };
static HandlerContext mkcontext(Schedule& sched, const DeckKeyword& kw, Ctx& c, bool actionx_mode = false) {
    return HandlerContext(sched, none<ScheduleBlock>(), kw, none<ScheduleGrid>(), 1, c.matches, actionx_mode, c.pc, c.eg, nullptr, nullptr, c.wpimult, nullptr, nullptr);
}
