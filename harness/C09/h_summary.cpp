// C09: summary vectors: (A) SummaryState accumulation (cumulative keys add, others assign; well/group/field storage),
// (B) the real keyword -> function table `funs` of Summary.cpp (initialised by the TU's static constructor) evaluated on a two-well model with
// symbolic rates, efficiency factors and well status: rates, injection/production split by sign, shut wells, group sums, totals, ratios.
#include "/repo/opm/output/eclipse/Summary.cpp"
#include <verif.h>
#ifndef VERIF_NATIVE
// generated keyword defaults (ParserKeywords/W.cpp is a build product of share/keywords/.../WPAVE); PAvg() reads them
#include <opm/input/eclipse/Parser/ParserKeywords/W.hpp>
const std::string Opm::ParserKeywords::WPAVE::DEPTH_CORRECTION::defaultValue = "WELL";
const std::string Opm::ParserKeywords::WPAVE::CONNECTION::defaultValue = "OPEN";
#endif
using namespace Opm;
#define CEQ(a, b) CHECK(EQ((a), (b)))

extern "C" void h_state(void) {
    SummaryState st(std::time_t{ 0 });
    double a = verif_nondet_real(), b = verif_nondet_real(), c = verif_nondet_real();
    st.update_well_var("W1", "WOPT", a); st.update_well_var("W1", "WOPT", b);               // cumulative: adds
    CEQ(st.get_well_var("W1", "WOPT"), a + b); CEQ(st.get("WOPT:W1"), a + b);
    st.update_well_var("W1", "WOPR", a); st.update_well_var("W1", "WOPR", b);               // rate: overwrites
    CEQ(st.get_well_var("W1", "WOPR"), b); CEQ(st.get("WOPR:W1"), b);
    st.update_well_var("W2", "WOPT", c); CEQ(st.get_well_var("W2", "WOPT"), c); CEQ(st.get_well_var("W1", "WOPT"), a + b);   // per well
    st.update_group_var("G1", "GWIT", a); st.update_group_var("G1", "GWIT", c); CEQ(st.get_group_var("G1", "GWIT"), a + c);
    st.update_group_var("G1", "GWIR", a); st.update_group_var("G1", "GWIR", c); CEQ(st.get_group_var("G1", "GWIR"), c);
    st.update("FGPT", a); st.update("FGPT", b); CEQ(st.get("FGPT"), a + b);
    st.update("FGPR", a); st.update("FGPR", b); CEQ(st.get("FGPR"), b);
    st.update("FOPTH", a); st.update("FOPTH", c); CEQ(st.get("FOPTH"), a + c);               // history totals accumulate as well
    st.update("FWCT", a); st.update("FWCT", c); CEQ(st.get("FWCT"), c);
    st.update_elapsed(a); st.update_elapsed(b); CEQ(st.get_elapsed(), a + b);
    CHECK(st.has_well_var("W1", "WOPT") && !st.has_well_var("W3", "WOPT") && st.has("FGPT") && !st.has("FXXX"));
    CHECK(st.wells().size() == 2 && st.groups().size() == 1);
}

#ifndef VOIDAGE
#define VOIDAGE 0
#endif
// ---- the quantity table on a two-well model
alignas(16) static unsigned char dummy[4096];
template <class T> static const T& none() { return *reinterpret_cast<const T*>(dummy); }
static Well mkwell(const char* name, bool producer) {
    static const UnitSystem units = UnitSystem::newMETRIC();          // the well keeps a pointer to its unit system
    return Well(name, "G1", 0, 0, 1, 1, 100.0, WellType(producer, producer ? Phase::OIL : Phase::WATER), Well::ProducerCMode::ORAT, Connection::Order::TRACK,
                units, -1.0, 0.0, true, true, 0, Well::GasInflowEquation::STD);
}
struct Model { double o[2], w[2], g[2], ro[2], rw[2], rg[2], ef[2]; bool shut[2]; };
static quantity evalkw(const char* kw, const std::vector<const Well*>& wells, const data::Wells& xw, const std::vector<std::pair<std::string, double>>& efs, double dt, const SummaryState& st) {
    const fn_args args { wells, "G1", kw, dt, 1, 0, std::nullopt, st, xw, none<data::WellBlockAveragePressures>(), none<data::GroupAndNetworkValues>(), none<out::RegionCache>(),
                         none<EclipseGrid>(), none<Schedule>(), efs, none<Inplace>(), none<Inplace>(), none<UnitSystem>() };
    auto it = funs.find(kw); CHECK(it != funs.end());
    return it->second(args);
}
extern "C" void h_rates(void) {
    Well w1 = mkwell("W1", true), w2 = mkwell("W2", true);
    SummaryState st(std::time_t{ 0 });
    Model m; for (int i = 0; i < 2; ++i) { m.ef[i] = verif_nondet_real(); m.shut[i] = nondet_bool(); ASSUME(m.ef[i] > 0 && m.ef[i] <= 1);
#if VOIDAGE          /* the voidage family in a job of its own: the sign splits of six more rates would multiply the paths */
                                      m.o[i] = m.w[i] = m.g[i] = 0.0; m.ro[i] = verif_nondet_real(); m.rw[i] = verif_nondet_real(); m.rg[i] = verif_nondet_real();
#else
                                      m.o[i] = verif_nondet_real(); m.w[i] = verif_nondet_real(); m.g[i] = verif_nondet_real(); m.ro[i] = m.rw[i] = m.rg[i] = 0.0;
#endif
    }
    data::Wells xw;
    for (int i = 0; i < 2; ++i) { auto& x = xw[i == 0 ? "W1" : "W2"]; x.rates.set(data::Rates::opt::oil, m.o[i]); x.rates.set(data::Rates::opt::wat, m.w[i]); x.rates.set(data::Rates::opt::gas, m.g[i]);
                                  x.rates.set(data::Rates::opt::reservoir_oil, m.ro[i]); x.rates.set(data::Rates::opt::reservoir_water, m.rw[i]); x.rates.set(data::Rates::opt::reservoir_gas, m.rg[i]);
                                  x.dynamicStatus = m.shut[i] ? Well::Status::SHUT : Well::Status::OPEN; }
    const std::vector<std::pair<std::string, double>> efs { { "W1", m.ef[0] }, { "W2", m.ef[1] } };
    const double dt = verif_nondet_real(); ASSUME(dt > 0);
    const std::vector<const Well*> one { &w1 }, both { &w1, &w2 };
    // production is carried by negative rates, injection by positive ones; a shut well contributes nothing
    auto prod = [&](int i, const double* r) { return (!m.shut[i] && !(r[i] * m.ef[i] > 0.0)) ? -(r[i] * m.ef[i]) : 0.0; };
    auto inj  = [&](int i, const double* r) { return (!m.shut[i] && (r[i] * m.ef[i] > 0.0)) ? (r[i] * m.ef[i]) : 0.0; };
#if !VOIDAGE
    CEQ(evalkw("WOPR", one, xw, efs, dt, st).value, prod(0, m.o)); CEQ(evalkw("WWPR", one, xw, efs, dt, st).value, prod(0, m.w)); CEQ(evalkw("WGPR", one, xw, efs, dt, st).value, prod(0, m.g));
    CEQ(evalkw("WWIR", one, xw, efs, dt, st).value, inj(0, m.w)); CEQ(evalkw("WGIR", one, xw, efs, dt, st).value, inj(0, m.g)); CEQ(evalkw("WOIR", one, xw, efs, dt, st).value, inj(0, m.o));
    // group / field = efficiency-factor weighted sum over the wells below
    CEQ(evalkw("GOPR", both, xw, efs, dt, st).value, prod(0, m.o) + prod(1, m.o)); CEQ(evalkw("FWPR", both, xw, efs, dt, st).value, prod(0, m.w) + prod(1, m.w));
    CEQ(evalkw("GWIR", both, xw, efs, dt, st).value, inj(0, m.w) + inj(1, m.w)); CEQ(evalkw("FGIR", both, xw, efs, dt, st).value, inj(0, m.g) + inj(1, m.g));
    // derived vectors
    CEQ(evalkw("WLPR", one, xw, efs, dt, st).value, prod(0, m.w) + prod(0, m.o)); CEQ(evalkw("GLPR", both, xw, efs, dt, st).value, prod(0, m.w) + prod(0, m.o) + prod(1, m.w) + prod(1, m.o));
    { const double wp = prod(0, m.w), op = prod(0, m.o), wct = evalkw("WWCT", one, xw, efs, dt, st).value; if (wp + op == 0.0) CEQ(wct, 0.0); else CEQ(wct * (wp + op), wp); }
    { const double gp = prod(0, m.g), op = prod(0, m.o), gor = evalkw("WGOR", one, xw, efs, dt, st).value; if (op == 0.0) CEQ(gor, 0.0); else CEQ(gor * op, gp); }
    { const double wp = prod(0, m.w) + prod(1, m.w), op = prod(0, m.o) + prod(1, m.o), wct = evalkw("FWCT", both, xw, efs, dt, st).value; if (wp + op == 0.0) CEQ(wct, 0.0); else CEQ(wct * (wp + op), wp); }
    // totals: the increment handed to SummaryState is rate * step length
    CEQ(evalkw("WOPT", one, xw, efs, dt, st).value, prod(0, m.o) * dt); CEQ(evalkw("GWIT", both, xw, efs, dt, st).value, (inj(0, m.w) + inj(1, m.w)) * dt); CEQ(evalkw("FGPT", both, xw, efs, dt, st).value, (prod(0, m.g) + prod(1, m.g)) * dt);
    CEQ(evalkw("WLPT", one, xw, efs, dt, st).value, (prod(0, m.w) + prod(0, m.o)) * dt);
#else
    // voidage: reservoir-volume rates of the three phases, production and injection split by sign like the surface rates
    CEQ(evalkw("WVPR", one, xw, efs, dt, st).value, prod(0, m.rw) + prod(0, m.ro) + prod(0, m.rg)); CEQ(evalkw("WVIR", one, xw, efs, dt, st).value, inj(0, m.rw) + inj(0, m.ro) + inj(0, m.rg));
    CEQ(evalkw("WVPT", one, xw, efs, dt, st).value, (prod(0, m.rw) + prod(0, m.ro) + prod(0, m.rg)) * dt); CEQ(evalkw("WVIT", one, xw, efs, dt, st).value, (inj(0, m.rw) + inj(0, m.ro) + inj(0, m.rg)) * dt);
    CEQ(evalkw("GVPR", both, xw, efs, dt, st).value, prod(0, m.rw) + prod(0, m.ro) + prod(0, m.rg) + prod(1, m.rw) + prod(1, m.ro) + prod(1, m.rg));
    CEQ(evalkw("FVIR", both, xw, efs, dt, st).value, inj(0, m.rw) + inj(0, m.ro) + inj(0, m.rg) + inj(1, m.rw) + inj(1, m.ro) + inj(1, m.rg));
#endif
    // the unit a vector is reported in (conversion to deck units happens on output with this tag)
    using M = UnitSystem::measure;
    CHECK(evalkw("WOPR", one, xw, efs, dt, st).unit == M::liquid_surface_rate); CHECK(evalkw("WGPR", one, xw, efs, dt, st).unit == M::gas_surface_rate); CHECK(evalkw("WWIR", one, xw, efs, dt, st).unit == M::liquid_surface_rate);
    CHECK(evalkw("WOPT", one, xw, efs, dt, st).unit == M::liquid_surface_volume); CHECK(evalkw("FGPT", both, xw, efs, dt, st).unit == M::gas_surface_volume); CHECK(evalkw("GWIT", both, xw, efs, dt, st).unit == M::liquid_surface_volume);
    CHECK(evalkw("WGIT", one, xw, efs, dt, st).unit == M::gas_surface_volume); CHECK(evalkw("WLPT", one, xw, efs, dt, st).unit == M::liquid_surface_volume);
    CHECK(evalkw("WVPR", one, xw, efs, dt, st).unit == M::rate); CHECK(evalkw("WVIT", one, xw, efs, dt, st).unit == M::volume);
    CHECK(evalkw("WWCT", one, xw, efs, dt, st).unit == M::water_cut); CHECK(evalkw("WGOR", one, xw, efs, dt, st).unit == M::gas_oil_ratio);
}

// ---- history vectors echo the schedule's observed rates (WCONHIST / WCONINJH values held by the well), weighted and gated like the rates
extern "C" void h_history(void) {
    Well w1 = mkwell("W1", true), w2 = mkwell("W2", true), wi = mkwell("I1", false);
    double ho[2], hw[2], hg[2], ef[3], hinj; bool shut[3];
    for (int i = 0; i < 2; ++i) { ho[i] = verif_nondet_real(); hw[i] = verif_nondet_real(); hg[i] = verif_nondet_real(); ASSUME(ho[i] >= 0 && hw[i] >= 0 && hg[i] >= 0); }
    for (int i = 0; i < 3; ++i) { ef[i] = verif_nondet_real(); ASSUME(ef[i] > 0 && ef[i] <= 1); shut[i] = nondet_bool(); }
    hinj = verif_nondet_real(); ASSUME(hinj >= 0);
    Well* pw[2] = { &w1, &w2 };
    for (int i = 0; i < 2; ++i) {
        auto p = std::make_shared<Well::WellProductionProperties>(pw[i]->getProductionProperties());
        p->OilRate = UDAValue(ho[i]); p->WaterRate = UDAValue(hw[i]); p->GasRate = UDAValue(hg[i]); p->predictionMode = false;
        pw[i]->updateProduction(p);
    }
    { auto p = std::make_shared<Well::WellInjectionProperties>(wi.getInjectionProperties());
      p->surfaceInjectionRate = UDAValue(hinj); p->injectorType = InjectorType::WATER; p->predictionMode = false; wi.updateInjection(p); }
    SummaryState st(std::time_t{ 0 });
    data::Wells xw;
    const char* names[3] = { "W1", "W2", "I1" };
    for (int i = 0; i < 3; ++i) xw[names[i]].dynamicStatus = shut[i] ? Well::Status::SHUT : Well::Status::OPEN;
    const std::vector<std::pair<std::string, double>> efs { { "W1", ef[0] }, { "W2", ef[1] }, { "I1", ef[2] } };
    const double dt = verif_nondet_real(); ASSUME(dt > 0);
    const std::vector<const Well*> one { &w1 }, both { &w1, &w2 }, all { &w1, &w2, &wi }, inj { &wi };
    auto h = [&](int i, const double* r) { return shut[i] ? 0.0 : r[i] * ef[i]; };
    CEQ(evalkw("WOPRH", one, xw, efs, dt, st).value, h(0, ho)); CEQ(evalkw("WWPRH", one, xw, efs, dt, st).value, h(0, hw)); CEQ(evalkw("WGPRH", one, xw, efs, dt, st).value, h(0, hg));
    CEQ(evalkw("WLPRH", one, xw, efs, dt, st).value, h(0, hw) + h(0, ho));
    CEQ(evalkw("GOPRH", both, xw, efs, dt, st).value, h(0, ho) + h(1, ho)); CEQ(evalkw("FWPRH", all, xw, efs, dt, st).value, h(0, hw) + h(1, hw));      // the injector adds nothing to production history
    CEQ(evalkw("WOPTH", one, xw, efs, dt, st).value, h(0, ho) * dt); CEQ(evalkw("FGPTH", all, xw, efs, dt, st).value, (h(0, hg) + h(1, hg)) * dt);
    { const double wp = h(0, hw), op = h(0, ho), wct = evalkw("WWCTH", one, xw, efs, dt, st).value; if (wp + op == 0.0) CEQ(wct, 0.0); else CEQ(wct * (wp + op), wp); }
    { const double gp = h(0, hg), op = h(0, ho), gor = evalkw("WGORH", one, xw, efs, dt, st).value; if (op == 0.0) CEQ(gor, 0.0); else CEQ(gor * op, gp); }
    // the injection target is held in deck units (WCONINJH) and converted to SI with the unit system the well was created with (METRIC: per day)
    const double ih = shut[2] ? 0.0 : UnitSystem::newMETRIC().to_si(UnitSystem::measure::liquid_surface_rate, hinj) * ef[2];      // (the factor itself is the subject of C02)
    CEQ(evalkw("WWIRH", inj, xw, efs, dt, st).value, ih); CEQ(evalkw("FWIRH", all, xw, efs, dt, st).value, ih); CEQ(evalkw("FWITH", all, xw, efs, dt, st).value, ih * dt);
    CEQ(evalkw("WGIRH", inj, xw, efs, dt, st).value, 0.0);                                     // a water injector has no gas injection history
    using M = UnitSystem::measure;
    CHECK(evalkw("WOPRH", one, xw, efs, dt, st).unit == M::liquid_surface_rate); CHECK(evalkw("WGPRH", one, xw, efs, dt, st).unit == M::gas_surface_rate);
    CHECK(evalkw("WOPTH", one, xw, efs, dt, st).unit == M::liquid_surface_volume); CHECK(evalkw("FGPTH", all, xw, efs, dt, st).unit == M::gas_surface_volume); CHECK(evalkw("FWITH", all, xw, efs, dt, st).unit == M::liquid_surface_volume);
}
