EXPLANATION = ('C09: (A) SummaryState::update/update_well_var/update_group_var/update_elapsed with symbolic values: cumulative keys accumulate, others overwrite; '
  '(B) the real keyword -> function table `funs` of Summary.cpp (built by running the translation unit\'s static constructor) is evaluated for W/G/F oil/water/gas/liquid production and injection rates, '
  'totals and ratios on a two-well model with symbolic rates, efficiency factors, step length and open/shut status, and compared with the defining expressions.')
BOUNDS = 'two wells below one group (history: two producers and a water injector), all real rates of either sign, efficiency factors in (0,1], every open/shut pattern; 25 keywords of the W/G/F x {O,W,G,L} x {P,I} x {R,T} families plus WCT/GOR, 6 voidage keywords, 14 history keywords, and the unit tag of 17 of them'
OUTSIDE = 'SummaryConfig keyword expansion, Summary::eval driver and unit conversion on output, group trees deeper than one level (accumulated efficiency factors are an input here), calendar vectors'
ASSUMPTIONS = ['doubles as reals', 'fn_args members that the evaluated functions do not touch (grid, schedule, region cache, inplace) are references to zeroed storage', 'Opm::Well objects built by the real constructor']
TUS = ['opm/input/eclipse/Schedule/SummaryState.cpp', 'opm/input/eclipse/Schedule/Well/Well.cpp', 'opm/input/eclipse/Units/UnitSystem.cpp', 'opm/input/eclipse/Units/Dimension.cpp', 'opm/common/utility/String.cpp',
       'opm/input/eclipse/Schedule/ScheduleTypes.cpp', 'opm/common/utility/TimeService.cpp'] + ['opm/input/eclipse/Schedule/Well/%s.cpp' % n for n in (
       'Connection', 'WDFAC', 'WINJMULT', 'WVFPDP', 'WVFPEXP', 'WellBrineProperties', 'WellConnections', 'WellEconProductionLimits', 'WellEnums', 'WellFoamProperties', 'WellInjectionProperties', 'WellMICPProperties',
       'WellPolymerProperties', 'WellProductionProperties', 'WellTracerProperties', 'FilterCake', 'PAvg')] + ['opm/input/eclipse/Schedule/MSW/WellSegments.cpp', 'opm/input/eclipse/Schedule/MSW/Segment.cpp', 'opm/input/eclipse/Deck/UDAValue.cpp',
       'opm/input/eclipse/Schedule/VFPProdTable.cpp', 'opm/input/eclipse/EclipseState/Phase.cpp']
def jobs(tier):
    return [dict(name='state', src='h_summary.cpp', defs={}, entry='h_state', tus=TUS, fp='real', loopmax=100000, maxsteps=400000000, opts=['--ctors']),
            dict(name='rates', src='h_summary.cpp', defs={}, entry='h_rates', tus=TUS, fp='real', loopmax=100000, maxsteps=400000000, timeout=900, opts=['--ctors'], partial_sites=True),
            dict(name='voidage', src='h_summary.cpp', defs={'VOIDAGE': 1}, entry='h_rates', tus=TUS, fp='real', loopmax=100000, maxsteps=400000000, timeout=900, opts=['--ctors'], partial_sites=True),
            dict(name='history', src='h_summary.cpp', defs={}, entry='h_history', tus=TUS + ['opm/input/eclipse/Schedule/eval_uda.cpp', 'opm/input/eclipse/Schedule/Well/injection.cpp'], fp='real', loopmax=100000, maxsteps=400000000, timeout=900, opts=['--ctors'])]
