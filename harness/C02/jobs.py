EXPLANATION = ('C02: UnitSystem::to_si/from_si (scalar and vector), getDimension, parse/parseFactor and Dimension conversions for each deck unit system, with the measure index symbolic, '
  'against an independent table of physical unit definitions; composite-dimension algebra with symbolic factors; DeckItem lazy SI conversion with symbolic values, flags and factors.')
BOUNDS = 'all four unit systems (harness split) x every UnitSystem::measure row (symbolic index) x every real value; composite strings: the listed shapes with symbolic factors; DeckItem: 3 values, 2 dimensions'
OUTSIDE = 'that each keyword JSON item carries the right dimension string (table audit), whole-deck unit-system re-expression, RestartValue/Solution::convert* beyond their use of these functions, IEEE rounding (tolerances 1e-12/1e-14 decided over exact rationals)'
ASSUMPTIONS = ['std::map<string,Dimension> executed from libstdc++ headers with _Rb_tree_insert_and_rebalance modelled as an unbalanced BST insert', 'doubles as exact rationals (the table constants are the binary doubles clang folded)']
TUS = ['opm/input/eclipse/Units/UnitSystem.cpp', 'opm/input/eclipse/Units/Dimension.cpp', 'opm/common/utility/String.cpp']
def jobs(tier):
    out = []
    for u, n in enumerate(['metric', 'field', 'lab', 'pvtm']):
        out.append(dict(name='units_%s' % n, src='h_units.cpp', defs={'USYS': u}, entry='h_measure,h_named,h_parse_symbolic', tus=TUS, fp='real', loopmax=3000, maxsteps=4000000,
                        bounds='unit system %s, measure index symbolic' % n))
    out.append(dict(name='deckitem_si', src='h_deckitem.cpp', defs={}, entry='h_deckitem,h_deckitem_nodim', tus=['opm/input/eclipse/Deck/DeckItem.cpp', 'opm/input/eclipse/Units/Dimension.cpp', 'opm/input/eclipse/Deck/UDAValue.cpp'], fp='real', loopmax=3000, maxsteps=4000000,
                    bounds='3 values, each deck value or default (symbolic flag), 2 active + 2 default dimensions with symbolic factor/offset'))
    return out
