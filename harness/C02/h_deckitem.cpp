// C02 (iv): DeckItem's lazy, in-place raw <-> SI conversion with symbolic values, default flags and dimension factors.
#include <vector>
#include <string>
#include <stdexcept>
#include <verif.h>
#include <opm/input/eclipse/Deck/DeckItem.hpp>
#include <opm/input/eclipse/Units/Dimension.hpp>
using Opm::Dimension; using Opm::DeckItem;
#define CEQ(a, b) CHECK(EQ((a), (b)))
extern "C" void h_deckitem(void) {
    double f[2], o[2], g[2], q[2];
    for (int k = 0; k < 2; ++k) { f[k] = verif_nondet_real(); o[k] = verif_nondet_real(); g[k] = verif_nondet_real(); q[k] = verif_nondet_real(); ASSUME(f[k] > 0 && g[k] > 0); }
    std::vector<Dimension> act { Dimension(f[0], o[0]), Dimension(f[1], o[1]) }, def { Dimension(g[0], q[0]), Dimension(g[1], q[1]) };
    DeckItem item("ITEM", double(), act, def);
    double x[3]; bool dflt[3];
    for (int i = 0; i < 3; ++i) { x[i] = verif_nondet_real(); dflt[i] = nondet_bool(); if (dflt[i]) item.push_backDefault(x[i]); else item.push_back(x[i]); }
    CHECK(item.data_size() == 3);
    for (int rep = 0; rep < 2; ++rep) {           // repeated queries change nothing
        for (int i = 0; i < 3; ++i) {
            const double fac = dflt[i] ? g[i % 2] : f[i % 2], off = dflt[i] ? q[i % 2] : o[i % 2];
            CEQ(item.getSIDouble(i), x[i] * fac + off);
            CHECK(item.defaultApplied(i) == dflt[i]);
        }
        const auto& raw = item.getData<double>();      // converts back in place
        CHECK(raw.size() == 3);
        for (int i = 0; i < 3; ++i) CEQ(raw[i], x[i]);
        CEQ(item.get<double>(1), x[1]);
    }
    const auto& si = item.getSIDoubleData(); CHECK(si.size() == 3);
    CEQ(si[2], x[2] * (dflt[2] ? g[0] : f[0]) + (dflt[2] ? q[0] : o[0]));
}
// an item without dimensions cannot deliver SI data
extern "C" void h_deckitem_nodim(void) {
    DeckItem item("ITEM", double(), {}, {});
    item.push_back(verif_nondet_real());
    bool threw = false; try { item.getSIDouble(0); } catch (const std::invalid_argument&) { threw = true; } CHECK(threw);
}
