// C02: UnitSystem conversion tables and dimension algebra against an independent table of physical unit definitions.
#include <cmath>
#include <string>
#include <vector>
#include <map>
#include <stdexcept>
#include <verif.h>
#include <opm/input/eclipse/Units/UnitSystem.hpp>
#include <opm/input/eclipse/Units/Dimension.hpp>
using Opm::UnitSystem;
typedef UnitSystem::measure M;
#ifndef USYS
#define USYS 0     /* 0 METRIC 1 FIELD 2 LAB 3 PVT-M */
#endif
static UnitSystem::UnitType utype() {
    return USYS == 0 ? UnitSystem::UnitType::UNIT_TYPE_METRIC : USYS == 1 ? UnitSystem::UnitType::UNIT_TYPE_FIELD : USYS == 2 ? UnitSystem::UnitType::UNIT_TYPE_LAB : UnitSystem::UnitType::UNIT_TYPE_PVT_M;
}
// ---- physical definitions (SI values written out; no constant shared with Units.hpp)
struct Base { double L, T, Mass, P, VL, VG, VR, E, tfac, toff, mol; };
static Base base() {
    const double ft = 0.3048, day = 86400.0, hour = 3600.0, lb = 0.45359237, psi = 6894.757293168361, bar = 1.0e5, atm = 101325.0;
    const double stb = 0.158987294928, ft3 = 0.028316846592, btu = 1054.3503;
    switch (USYS) {
    case 0:  return { 1.0, day, 1.0, bar, 1.0, 1.0, 1.0, 1000.0, 1.0, 273.15, 1000.0 };
    case 1:  return { ft, day, lb, psi, stb, 1000.0 * ft3, stb, btu, 5.0 / 9.0, 459.67 * 5.0 / 9.0, 1000.0 * lb };
    case 2:  return { 0.01, hour, 0.001, atm, 1.0e-6, 1.0e-6, 1.0e-6, 1.0, 1.0, 273.15, 1.0 };
    default: return { 1.0, day, 1.0, atm, 1.0, 1.0, 1.0, 1000.0, 1.0, 273.15, 1000.0 };
    }
}
static double expected(int m, double& off) {
    const Base b = base(); const double cP = 1.0e-3, mD = 9.869232667160130e-16, L3 = b.L * b.L * b.L;
    off = 0.0;
    switch ((M) m) {
    case M::identity: return 1; case M::length: return b.L; case M::time: return b.T; case M::runtime: return 1;
    case M::density: return b.Mass / L3; case M::pressure: return b.P; case M::temperature_absolute: return b.tfac;
    case M::temperature: off = b.toff; return b.tfac;
    case M::viscosity: return cP; case M::permeability: return mD; case M::area: return b.L * b.L;
    case M::liquid_surface_volume: return b.VL; case M::gas_surface_volume: return b.VG; case M::volume: return b.VR; case M::geometric_volume: return L3;
    case M::liquid_surface_rate: return b.VL / b.T; case M::gas_surface_rate: return b.VG / b.T; case M::rate: return b.VR / b.T; case M::geometric_volume_rate: return L3 / b.T;
    case M::pipeflow_velocity: return b.L; case M::transmissibility: return cP * b.VR / (b.T * b.P); case M::effective_Kh: return mD * b.L;
    case M::mass: return b.Mass; case M::mass_rate: return b.Mass / b.T;
    case M::gas_oil_ratio: return b.VG / b.VL; case M::oil_gas_ratio: return b.VL / b.VG; case M::water_cut: return 1;
    case M::gas_formation_volume_factor: return b.VR / b.VG; case M::oil_formation_volume_factor: return b.VR / b.VL; case M::water_formation_volume_factor: return b.VR / b.VL;
    case M::gas_inverse_formation_volume_factor: return b.VG / b.VR; case M::oil_inverse_formation_volume_factor: return b.VL / b.VR; case M::water_inverse_formation_volume_factor: return b.VL / b.VR;
    case M::liquid_productivity_index: return b.VL / b.T / b.P; case M::gas_productivity_index: return b.VG / b.T / b.P;
    case M::energy: return b.E; case M::energy_rate: return b.E / b.T;
    case M::icd_strength: return b.P / ((L3 / b.T) * (L3 / b.T)); case M::aicd_strength: return b.P / (b.Mass / L3) / ((L3 / b.T) * (L3 / b.T));
    case M::polymer_density: return b.Mass / b.VL; case M::salinity: return b.Mass / b.VL;
    case M::gas_oil_ratio_rate: return b.VG / b.VL / b.T; case M::moles: return b.mol; case M::ppm: return 1.0e-6; case M::ymodule: return 1.0e9;
    case M::dfactor: return b.T / b.VG;
    default: return -1;
    }
}
static bool close(double a, double b, double rel) { double d = a - b; if (d < 0) d = -d; double m = b < 0 ? -b : b; return d <= rel * m; }

// (i)+(ii): the measure index is SYMBOLIC - the solver picks the table row
extern "C" void h_measure(void) {
    UnitSystem us(utype());
    int m = nondet_int(); ASSUME(m >= 0 && m < (int) M::_count);
    double x = verif_nondet_real();
    double off_e; double fac_e = expected(m, off_e);
    double si0 = us.to_si((M) m, 0.0), si1 = us.to_si((M) m, 1.0);
    CHECK(close(si1 - si0, fac_e, 1e-12));                 // factor equals the physical definition
    CHECK(close(si0, off_e, 1e-12) || (off_e == 0.0 && si0 == 0.0));   // offset likewise
    double y = us.from_si((M) m, us.to_si((M) m, x));       // round trip is the identity to rounding
    CHECK(close(y, x, 1e-14));
    double z = us.to_si((M) m, us.from_si((M) m, x));
    CHECK(close(z - si0, x - si0, 1e-14));
    // vector overloads agree with the scalar ones
    std::vector<double> v { x, 1.0 }; us.to_si((M) m, v); CHECK(EQ(v[0], us.to_si((M) m, x)) && EQ(v[1], si1));
    std::vector<double> w { x, si0 }; us.from_si((M) m, w); CHECK(EQ(w[0], us.from_si((M) m, x)) && EQ(w[1], 0.0));
    // Dimension view of the same row
    Opm::Dimension d = us.getDimension((M) m);
    CHECK(EQ(d.getSIScaling(), si1 - si0) && EQ(d.getSIOffset(), si0));
    CHECK(EQ(d.convertRawToSi(x), us.to_si((M) m, x)));
    CHECK(close(d.convertSiToRaw(d.convertRawToSi(x)), x, 1e-14));
    CHECK(d.isCompositable() == (si0 == 0.0));
}
// (iii) named dimensions equal their physical definition; composite strings multiply / divide
extern "C" void h_named(void) {
    UnitSystem us(utype()); const Base b = base(); const double cP = 1.0e-3, mD = 9.869232667160130e-16, L3 = b.L * b.L * b.L;
    struct { const char* n; double f; } tab[] = {
        { "1", 1 }, { "Pressure", b.P }, { "AbsoluteTemperature", b.tfac }, { "Length", b.L }, { "Time", b.T }, { "RunTime", 1 }, { "Mass", b.Mass }, { "Permeability", mD },
        { "Area", b.L * b.L }, { "Transmissibility", cP * b.VR / (b.T * b.P) }, { "GasDissolutionFactor", b.VG / b.VL }, { "OilDissolutionFactor", b.VL / b.VG },
        { "LiquidSurfaceVolume", b.VL }, { "GasSurfaceVolume", b.VG }, { "ReservoirVolume", b.VR }, { "GeometricVolume", L3 }, { "Density", b.Mass / L3 },
        { "PolymerDensity", b.Mass / b.VL }, { "Salinity", b.Mass / b.VL }, { "FoamDensity", b.Mass / b.VG }, { "FoamSurfactantConcentration", b.Mass / b.VL }, { "Unit", 1 }, { "Viscosity", cP }, { "Timestep", b.T }, { "SurfaceTension", 1.0e-3 }, { "Energy", b.E },
        { "PPM", 1.0e-6 }, { "Moles", b.mol }, { "Ymodule", 1.0e9 } };
    for (const auto& e : tab) { const auto& d = us.getDimension(std::string(e.n)); CHECK(close(d.getSIScaling(), e.f, 1e-12)); CHECK(d.getSIOffset() == 0.0); }
    const auto& t = us.getDimension(std::string("Temperature")); CHECK(close(t.getSIScaling(), b.tfac, 1e-12) && close(t.getSIOffset(), b.toff, 1e-12));
    // composite strings used by keyword definitions
    CHECK(close(us.parse("Length*Length*Length/Time").getSIScaling(), L3 / b.T, 1e-12));
    CHECK(close(us.parse("LiquidSurfaceVolume/Time").getSIScaling(), b.VL / b.T, 1e-12));
    CHECK(close(us.parse("GasSurfaceVolume/Time").getSIScaling(), b.VG / b.T, 1e-12));
    CHECK(close(us.parse("ReservoirVolume/Time").getSIScaling(), b.VR / b.T, 1e-12));
    CHECK(close(us.parse("1/Pressure").getSIScaling(), 1.0 / b.P, 1e-12));
    CHECK(close(us.parse("Permeability*Length").getSIScaling(), mD * b.L, 1e-12));
    CHECK(close(us.parse("Viscosity*ReservoirVolume/Time*Pressure").getSIScaling(), cP * b.VR / (b.T * b.P), 1e-12));
    CHECK(close(us.parse("Mass/Length*Length*Length").getSIScaling(), b.Mass / L3, 1e-12));
    CHECK(close(us.to_si(std::string("Pressure/Length"), 2.0), 2.0 * b.P / b.L, 1e-12));
    CHECK(close(us.from_si(std::string("Pressure/Length"), 2.0 * b.P / b.L), 2.0, 1e-12));
}
// (iii) the composition law with SYMBOLIC factors
extern "C" void h_parse_symbolic(void) {
    UnitSystem us(utype());
    double fa = verif_nondet_real(), fb = verif_nondet_real(), fc = verif_nondet_real(), fd = verif_nondet_real(), off = verif_nondet_real();
    ASSUME(fa > 0 && fb > 0 && fc > 0 && fd > 0 && off != 0.0);
    us.addDimension("A", fa); us.addDimension("B", fb); us.addDimension("C", fc); us.addDimension("D", fd); us.addDimension("O", fa, off);
    CHECK(EQ(us.parse("A").getSIScaling(), fa));
    CHECK(EQ(us.parse("A*B").getSIScaling(), fa * fb));
    CHECK(EQ(us.parse("A*B*C").getSIScaling(), fa * fb * fc));
    CHECK(EQ(us.parse("A/B").getSIScaling() * fb, fa));
    CHECK(EQ(us.parse("A*B/C*D").getSIScaling() * (fc * fd), fa * fb));
    CHECK(EQ(us.parse("A/B").getSIOffset(), 0.0));
    { auto d = us.parse("O"); CHECK(EQ(d.getSIScaling(), fa) && EQ(d.getSIOffset(), off)); }    // a single offset dimension is returned as is
    bool threw = false; try { us.parse("O*A"); } catch (const std::invalid_argument&) { threw = true; } CHECK(threw);
    threw = false; try { us.parse("A/O"); } catch (const std::invalid_argument&) { threw = true; } CHECK(threw);
    threw = false; try { us.parse("A/B/C"); } catch (const std::invalid_argument&) { threw = true; } CHECK(threw);
    threw = false; try { us.parse("A*Nope"); } catch (const std::out_of_range&) { threw = true; } CHECK(threw);
    double x = verif_nondet_real();
    CHECK(EQ(us.to_si(std::string("A*B/C"), x) * fc, x * fa * fb));
    CHECK(EQ(us.from_si(std::string("A*B/C"), x) * (fa * fb), x * fc));
}
