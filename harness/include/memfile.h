// In-memory file model shared by the I/O harnesses (implemented by engine/cxxrt.py symbolically, engine/native_rt.cpp natively).
#pragma once
#include <fstream>
extern "C" {
std::fstream* verif_memfile(unsigned long nbytes);     // file 1.. with nbytes symbolic bytes; returns a (dummy) stream bound to it
std::fstream* verif_memfile_new(void);                 // empty file
void verif_stream_bind(void* stream_object, long file_id, long kind /*0 ofstream 1 ifstream 2 fstream*/);
long verif_memfile_size(long file_id);
unsigned char verif_memfile_byte(long file_id, long index);
void verif_memfile_setbyte(long file_id, long index, unsigned char b);
void verif_memfile_truncate(long file_id, long nbytes);
void verif_memfile_rewind(long file_id);               // get position 0, put position end, state cleared
long verif_memfile_gpos(long file_id);
int verif_memfile_failed(long file_id);
void verif_memfile_name(long file_id, const char* name);   // the file can now be opened under this name by the code under test
#ifdef VERIF_NATIVE
const char* verif_memfile_path(long file_id);
#endif
}
