// Harness vocabulary shared by the symbolic executor (engine/llsym.py), the IR->C/CBMC route and the native replay build.
#pragma once
#include <cstdint>
extern "C" {
unsigned char nondet_uchar(void); char nondet_char(void); int nondet_int(void); unsigned nondet_uint(void);
long nondet_long(void); unsigned long nondet_ulong(void); bool nondet_bool(void);
double verif_nondet_real(void);     // a double: Real term in fp mode 'real', Float64 term in mode 'ieee'
float verif_nondet_float(void);
void __CPROVER_assume(bool);
void __VERIFIER_assert(bool);
void verif_observe(long tag, long value);
}
// fork one path per feasible value (<= max) of a small symbolic size; on each path the result is a concrete number (engine builtin; identity natively)
extern "C" unsigned long verif_concretize(unsigned long n, unsigned long max);
#define ASSUME(c) __CPROVER_assume(c)
#define CHECK(c) __VERIFIER_assert(c)

// equality of doubles: exact in the symbolic encoding (real or IEEE terms); tolerant in the native replay of a 'real'-mode model
#ifdef VERIF_NATIVE
#include <cmath>
static inline bool verif_eq(double a, double b) { double d = std::fabs(a - b); return d <= 1e-6 * (std::fabs(a) + std::fabs(b)) || d <= 1e-300; }
#else
static inline bool verif_eq(double a, double b) { return a == b; }
#endif
#define EQ(a, b) verif_eq((a), (b))

#ifdef VERIF_NATIVE
// native replay: main dispatches to the entry named in VERIF_ENTRY through dlsym on the executable itself
#include <dlfcn.h>
#include <cstdlib>
#include <cstdio>
#include <exception>
int main() {
    const char* e = std::getenv("VERIF_ENTRY");
    void* h = dlopen(nullptr, RTLD_NOW);
    void (*f)(void) = e ? (void (*)(void)) dlsym(h, e) : nullptr;
    if (!f) { std::printf("VERIF-NO-ENTRY %s\n", e ? e : "(null)"); return 5; }
    f();
    std::printf("VERIF-RETURNED\n");
    return 0;
}
#endif
