// C12: (a) Box::update from a BOX-style record: defaulted corners take the full range of THEIR axis, given corners are one-based;
//      (b) the OPERATE function table (Operate.cpp) against the documented definitions, all real arguments.
#include <cmath>
#include <string>
#include <vector>
#include <opm/input/eclipse/EclipseState/Grid/Box.hpp>
#include <opm/input/eclipse/EclipseState/Grid/GridDims.hpp>
#include <opm/input/eclipse/EclipseState/Grid/Operate.hpp>
#include <opm/input/eclipse/Deck/DeckRecord.hpp>
#include <opm/input/eclipse/Deck/DeckItem.hpp>
#include <verif.h>
#ifndef VERIF_NATIVE
// item names of the generated BOX keyword (ParserKeywords/B.cpp is a build product of share/keywords/.../BOX)
#include <opm/input/eclipse/Parser/ParserKeywords/B.hpp>
const std::string Opm::ParserKeywords::BOX::I1::itemName = "I1";
const std::string Opm::ParserKeywords::BOX::I2::itemName = "I2";
const std::string Opm::ParserKeywords::BOX::J1::itemName = "J1";
const std::string Opm::ParserKeywords::BOX::J2::itemName = "J2";
const std::string Opm::ParserKeywords::BOX::K1::itemName = "K1";
const std::string Opm::ParserKeywords::BOX::K2::itemName = "K2";
#endif
using namespace Opm;
#define CEQ(a, b) CHECK(EQ((a), (b)))
static DeckItem corner(const char* name, bool given, int one_based) { DeckItem it(name, int()); if (given) it.push_back(one_based); else it.push_backDummyDefault<int>(); return it; }
extern "C" void h_box_update(void) {
    const int D[3] = { 2, 3, 4 };                       // nx != ny != nz: a default taken from the wrong axis shows
    GridDims dims(D[0], D[1], D[2]);
    Box box(dims, [](std::size_t) { return true; }, [](std::size_t n) { return n; });
    const char* names[6] = { "I1", "I2", "J1", "J2", "K1", "K2" };
    bool given[6], shrink[3]; int val[6]; int expect[6]; int ngiven = 0;
    std::vector<DeckItem> items;
    for (int c = 0; c < 6; ++c) {
        given[c] = nondet_bool(); const int len = D[c / 2];
        if (c % 2 == 0) shrink[c / 2] = nondet_bool();
        val[c] = (c % 2) ? (shrink[c / 2] ? len - 1 : len) : (shrink[c / 2] ? 2 : 1);     // one-based corner: the full axis or the axis shrunk by one cell at either end
        expect[c] = given[c] ? val[c] - 1 : ((c % 2) ? len - 1 : 0);
        ngiven += given[c];
    }
    for (int a = 0; a < 3; ++a) ASSUME(expect[2 * a] <= expect[2 * a + 1]);
    DeckRecord rec; for (int c = 0; c < 6; ++c) rec.addItem(corner(names[c], given[c], val[c]));
    box.update(rec);
    CHECK(box.I1() == expect[0] && box.I2() == expect[1] && box.J1() == expect[2] && box.J2() == expect[3] && box.K1() == expect[4] && box.K2() == expect[5]);
    CHECK(box.size() == (std::size_t) ((expect[1] - expect[0] + 1) * (expect[3] - expect[2] + 1) * (expect[5] - expect[4] + 1)));
}
extern "C" void h_operate(void) {
    double R = verif_nondet_real(), X = verif_nondet_real(), a = verif_nondet_real(), b = verif_nondet_real();
    CEQ(Operate::get("MULTA", a, b)(R, X), a * X + b);
    CEQ(Operate::get("POLY", a, b)(R, X), R + a * std::pow(X, b));
    CEQ(Operate::get("SLOG", a, b)(R, X), std::pow(10.0, a + b * X));
    CEQ(Operate::get("LOG10", a, b)(R, X), std::log10(X));
    CEQ(Operate::get("LOGE", a, b)(R, X), std::log(X));
    if (X != 0) CEQ(Operate::get("INV", a, b)(R, X) * X, 1.0);
    CEQ(Operate::get("MULTX", a, b)(R, X), a * X);
    CEQ(Operate::get("ADDX", a, b)(R, X), X + a);
    CEQ(Operate::get("COPY", a, b)(R, X), X);
    CEQ(Operate::get("MAXLIM", a, b)(R, X), X < a ? X : a);
    CEQ(Operate::get("MINLIM", a, b)(R, X), X > a ? X : a);
    CEQ(Operate::get("MULTP", a, b)(R, X), a * std::pow(X, b));
    CEQ(Operate::get("ABS", a, b)(R, X), X < 0 ? -X : X);
    CEQ(Operate::get("MULTIPLY", a, b)(R, X), R * X);
    bool threw = false; try { Operate::get("NOSUCH", a, b); } catch (const std::exception&) { threw = true; } CHECK(threw);
}
