// C12: Box index lists and the FieldProps.cpp operation kernels (assign_deck, multiply_deck, apply: EQUALS/MULTIPLY/ADD/MINVALUE/MAXVALUE)
// on a small grid with symbolic ACTNUM, symbolic box corners, symbolic operands and status flags, against a reference interpreter that
// works on the GLOBAL array only (no active/data index notion).
#include "/repo/opm/input/eclipse/EclipseState/Grid/FieldProps.cpp"
#include <verif.h>
using namespace Opm;
#ifndef GNX
#define GNX 2
#define GNY 2
#define GNZ 2
#endif
#ifndef OP1
#define OP1 0
#endif
#define CEQ(a, b) CHECK(EQ((a), (b)))
static const int N = GNX * GNY * GNZ;
struct Grid { int act[N]; int aidx[N]; int nact; };
static Grid mkgrid() {
    Grid g; g.nact = 0;
    for (int n = 0; n < N; ++n) { bool on = (n == 1 || n == N - 2) ? nondet_bool() : (n != 4); g.act[n] = on; g.aidx[n] = on ? g.nact++ : -1; }
    return g;
}
static void corners(int len, int& a, int& b) { a = (int) verif_concretize(nondet_ulong(), len - 1); b = (int) verif_concretize(nondet_ulong(), len - 1); ASSUME(a <= b); }
struct RefCell { double v; int st; };             // status: 0 uninitialised, 1 deck value, 2 valid default, 3 empty default
static bool hasv(int st) { return st == 1 || st == 2; }

extern "C" void h_box(void) {
    Grid g = mkgrid();
    int i1, i2, j1, j2, k1, k2; corners(GNX, i1, i2); corners(GNY, j1, j2); corners(GNZ, k1, k2);
    Box box(GridDims(GNX, GNY, GNZ), [&g](std::size_t n) { return g.act[n] != 0; }, [&g](std::size_t n) { return (std::size_t) g.aidx[n]; }, i1, i2, j1, j2, k1, k2);
    CHECK(box.size() == (std::size_t) ((i2 - i1 + 1) * (j2 - j1 + 1) * (k2 - k1 + 1)));
    CHECK(box.I1() == i1 && box.I2() == i2 && box.J1() == j1 && box.J2() == j2 && box.K1() == k1 && box.K2() == k2);
    // the global list enumerates exactly the cells of the box, x fastest, with consecutive data indices; the active list is its restriction to active cells
    std::size_t di = 0, ai = 0;
    const auto& gl = box.global_index_list(); const auto& al = box.index_list();
    for (int k = k1; k <= k2; ++k) for (int j = j1; j <= j2; ++j) for (int i = i1; i <= i2; ++i) {
        std::size_t n = i + GNX * (j + GNY * k);
        CHECK(di < gl.size()); CHECK(gl[di].global_index == n && gl[di].data_index == di);
        if (g.act[n]) { CHECK(ai < al.size()); CHECK(al[ai].global_index == n && al[ai].active_index == (std::size_t) g.aidx[n] && al[ai].data_index == di); ++ai; }
        ++di;
    }
    CHECK(di == gl.size() && ai == al.size());
    bool threw = false; try { Box bad(GridDims(GNX, GNY, GNZ), [](std::size_t) { return true; }, [](std::size_t n) { return n; }, 0, GNX, 0, 0, 0, 0); } catch (const std::invalid_argument&) { threw = true; } CHECK(threw);
    threw = false; try { Box bad(GridDims(GNX, GNY, GNZ), [](std::size_t) { return true; }, [](std::size_t n) { return n; }, 1, 0, 0, 0, 0, 0); } catch (const std::invalid_argument&) { threw = true; } CHECK(threw);
}
// two operations in sequence: OP1 (harness split) on a symbolic box, then a symbolic second operation on the whole grid
static void ref_apply(int op, RefCell& c, double x, bool& undefined) {
    if (op == 0) { c.v = x; c.st = 1; return; }                          // EQUALS
    if (!hasv(c.st)) { undefined = true; return; }
    if (op == 1) c.v *= x; else if (op == 2) c.v += x; else if (op == 3) c.v = c.v < x ? x : c.v; else c.v = c.v > x ? x : c.v;   // MULTIPLY ADD MINVALUE MAXVALUE
}
static Fieldprops::ScalarOperation opk(int op) { using O = Fieldprops::ScalarOperation; return op == 0 ? O::EQUAL : op == 1 ? O::MUL : op == 2 ? O::ADD : op == 3 ? O::MIN : O::MAX; }
extern "C" void h_scalar_ops(void) {
    Grid g = mkgrid();
    int i1, i2, j1 = 0, j2 = GNY - 1, k1, k2; corners(GNX, i1, i2); corners(GNZ, k1, k2);
    if (nondet_bool()) j2 = 0;
    auto isact = [&g](std::size_t n) { return g.act[n] != 0; }; auto aix = [&g](std::size_t n) { return (std::size_t) g.aidx[n]; };
    Box box(GridDims(GNX, GNY, GNZ), isact, aix, i1, i2, j1, j2, k1, k2), all(GridDims(GNX, GNY, GNZ), isact, aix);
    // initial array: symbolic values; symbolic initialised/uninitialised status per cell
    RefCell ref[N]; std::vector<double> data(g.nact); std::vector<value::status> st(g.nact);
    for (int n = 0; n < N; ++n) { ref[n].v = verif_nondet_real(); ref[n].st = (n == 0 || n == 3 || n == N - 1) ? (nondet_bool() ? 1 : 0) : 1; if (g.act[n]) { data[g.aidx[n]] = ref[n].v; st[g.aidx[n]] = ref[n].st ? value::status::deck_value : value::status::uninitialized; } }
    double x1 = verif_nondet_real(), x2 = verif_nondet_real();
    int op2 = (int) verif_concretize(nondet_ulong(), 4);
    bool und_ref = false, threw = false;
    for (int k = k1; k <= k2; ++k) for (int j = j1; j <= j2; ++j) for (int i = i1; i <= i2; ++i) { int n = i + GNX * (j + GNY * k); if (g.act[n]) ref_apply(OP1, ref[n], x1, und_ref); }
    try { apply(opk(OP1), KeywordLocation{}, "ARR", data, st, x1, box.index_list()); } catch (const std::exception&) { threw = true; }
    CHECK(threw == und_ref);                                        // operating on cells without a value is rejected, and only then
    if (threw) return;
    und_ref = false;
    for (int n = 0; n < N; ++n) if (g.act[n]) ref_apply(op2, ref[n], x2, und_ref);
    try { apply(opk(op2), KeywordLocation{}, "ARR", data, st, x2, all.index_list()); } catch (const std::exception&) { threw = true; }
    CHECK(threw == und_ref);
    if (threw) return;
    for (int n = 0; n < N; ++n) if (g.act[n]) { CEQ(data[g.aidx[n]], ref[n].v); CHECK(value::has_value(st[g.aidx[n]]) == hasv(ref[n].st)); }
}
// direct assignment from deck data with defaulted entries, then multiplication by deck data
extern "C" void h_deck_ops(void) {
    Grid g = mkgrid();
    int i1, i2, j1 = 0, j2 = GNY - 1, k1, k2; corners(GNX, i1, i2); corners(GNZ, k1, k2);
    auto isact = [&g](std::size_t n) { return g.act[n] != 0; }; auto aix = [&g](std::size_t n) { return (std::size_t) g.aidx[n]; };
    Box box(GridDims(GNX, GNY, GNZ), isact, aix, i1, i2, j1, j2, k1, k2);
    Fieldprops::keywords::keyword_info<double> info; Fieldprops::FieldData<double> fd(info, g.nact, 0);
    RefCell ref[N];
    for (int n = 0; n < N; ++n) { ref[n].v = verif_nondet_real(); ref[n].st = (n == 0 || n == N - 1) ? (int) verif_concretize(nondet_ulong(), 2) : (n % 3); if (g.act[n]) { fd.data[g.aidx[n]] = ref[n].v; fd.value_status[g.aidx[n]] = (value::status) (ref[n].st == 0 ? (int) value::status::uninitialized : ref[n].st == 1 ? (int) value::status::deck_value : (int) value::status::valid_default); } }
    const std::size_t bs = box.size();
    std::vector<double> dd(bs); std::vector<value::status> ds(bs); std::vector<int> dsi(bs);
    for (std::size_t d = 0; d < bs; ++d) { dd[d] = verif_nondet_real(); dsi[d] = (d == 0 || d + 1 == bs) ? (int) verif_concretize(nondet_ulong(), 2) : (int) (d % 3); ds[d] = dsi[d] == 0 ? value::status::deck_value : dsi[d] == 1 ? value::status::valid_default : value::status::empty_default; }
    DeckKeyword kw(KeywordLocation{}, "ARR");
    assign_deck(info, kw, fd, dd, ds, box);
    std::size_t d = 0;
    for (int k = k1; k <= k2; ++k) for (int j = j1; j <= j2; ++j) for (int i = i1; i <= i2; ++i, ++d) {
        int n = i + GNX * (j + GNY * k); if (!g.act[n]) continue;
        // a deck value always overwrites; a defaulted deck entry (with a value) only fills a cell that has none; an empty default changes nothing
        if (dsi[d] == 0) { ref[n].v = dd[d]; ref[n].st = 1; } else if (dsi[d] == 1 && ref[n].st == 0) { ref[n].v = dd[d]; ref[n].st = 2; }
    }
    for (int n = 0; n < N; ++n) if (g.act[n]) { if (ref[n].st != 0) CEQ(fd.data[g.aidx[n]], ref[n].v); CHECK(value::has_value(fd.value_status[g.aidx[n]]) == (ref[n].st != 0)); }
    bool threw = false; std::vector<double> shortd(bs + 1, 1.0); try { assign_deck(info, kw, fd, shortd, ds, box); } catch (const std::invalid_argument&) { threw = true; } CHECK(threw);
}
