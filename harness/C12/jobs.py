import os
EXPLANATION = ('C12: Box (index lists, bounds validation) and the operation kernels of FieldProps.cpp (apply: EQUALS/MULTIPLY/ADD/MINVALUE/MAXVALUE; assign_deck with defaulted entries) '
  'on a 2x2x2 grid with symbolic ACTNUM cells, symbolic box corners, operands and value-status flags, compared cell by cell with a reference interpreter on the global array; and the real FieldProps constructor scanning the GRID section of a parser-built deck (EQUALS, COPY, MINVALUE, MAXVALUE, BOX/ENDBOX, top-layer arrays) with symbolic numbers and ACTNUM.')
BOUNDS = 'section level: one GRID section of 9 keywords on a 3x2x2 grid, 21 symbolic reals, 3 symbolic ACTNUM entries; kernels: 2x2x2 grid (thorough: 3x2x2), 3 cells with symbolic activity + 1 fixed inactive, every sub-box, sequences of two operations (first: harness split, second: symbolic kind), all real operands'
OUTSIDE = 'scanEDIT/PROPS/REGIONS/SOLUTION/SCHEDULE drivers, keyword default tables, the region variants, the OPERATE driver (its function table is covered), porv/multiplier post-processing, integer arrays'
ASSUMPTIONS = ['doubles as reals', 'section job: the TableManager passed to the FieldProps constructor is zeroed storage that is never read on the exercised paths', 'section job: numbers are written into the parsed Deck after parsing (DeckItem raw data), before FieldProps reads them']
TUS = ['opm/input/eclipse/EclipseState/Grid/Box.cpp', 'opm/input/eclipse/EclipseState/Grid/GridDims.cpp', 'opm/input/eclipse/Deck/DeckKeyword.cpp', 'opm/common/OpmLog/KeywordLocation.cpp']
def jobs(tier):
    out = [dict(name='box', src='h_fieldops.cpp', defs={}, entry='h_box', tus=TUS, fp='real', loopmax=4000, maxsteps=40000000, bounds='every sub-box of the 2x2x2 grid, 8 ACTNUM patterns')]
    for op in range(5):
        out.append(dict(name='scalar_op%d' % op, src='h_fieldops.cpp', defs={'OP1': op}, entry='h_scalar_ops', tus=TUS, fp='real', loopmax=4000, maxsteps=100000000, timeout=290, bounds='first operation %d on every sub-box, second operation symbolic on the whole grid' % op))
    out.append(dict(name='deck_ops', src='h_fieldops.cpp', defs={}, entry='h_deck_ops', tus=TUS, fp='real', loopmax=4000, maxsteps=100000000, bounds='assign_deck on every sub-box, deck entries deck/default/empty (symbolic)'))
    if tier != 'quick':
        big = {'GNX': 3, 'GNY': 2, 'GNZ': 2}
        out.append(dict(name='box_3x2x2', src='h_fieldops.cpp', defs=dict(big), entry='h_box', tus=TUS, fp='real', loopmax=8000, maxsteps=80000000, timeout=1500, bounds='every sub-box of a 3x2x2 grid'))
        for op in (0, 1):
            out.append(dict(name='scalar_op%d_3x2x2' % op, src='h_fieldops.cpp', defs=dict(big, OP1=op), entry='h_scalar_ops', tus=TUS, fp='real', loopmax=8000, maxsteps=200000000, timeout=1500, bounds='first operation %d, 3x2x2 grid' % op))
        out.append(dict(name='deck_ops_3x2x2', src='h_fieldops.cpp', defs=dict(big), entry='h_deck_ops', tus=TUS, fp='real', loopmax=8000, maxsteps=200000000, timeout=1500, bounds='assign_deck, 3x2x2 grid'))
    DT = TUS + ['opm/input/eclipse/Deck/DeckRecord.cpp', 'opm/input/eclipse/Deck/DeckItem.cpp', 'opm/input/eclipse/Deck/UDAValue.cpp', 'opm/input/eclipse/Units/Dimension.cpp']
    out.append(dict(name='box_update', src='h_operate.cpp', defs={}, entry='h_box_update', tus=DT, fp='real', loopmax=4000, maxsteps=40000000, opts=['--ctors'], bounds='2x3x4 grid, every given/defaulted pattern of the six corners, corners at the axis ends or one cell inside'))
    out.append(dict(name='operate_functions', src='h_operate.cpp', defs={}, entry='h_operate', tus=['opm/input/eclipse/EclipseState/Grid/Operate.cpp'], fp='real', loopmax=4000, maxsteps=40000000, opts=['--ctors'], bounds='the 14 OPERATE functions, all real R, X, alpha, beta (pow/log uninterpreted)'))
    ST = ['opm/input/eclipse/Parser/%s.cpp' % n for n in ('Parser', 'raw/RawKeyword', 'raw/RawRecord', 'raw/StarToken', 'ParseContext', 'ErrorGuard', 'InputErrorAction', 'ParserKeyword', 'ParserRecord', 'ParserItem', 'ParserEnums')] + [
          'opm/input/eclipse/Deck/%s.cpp' % n for n in ('Deck', 'DeckKeyword', 'DeckRecord', 'DeckItem', 'DeckView', 'DeckTree', 'DeckValue', 'DeckOutput', 'DeckSection', 'UDAValue', 'FileDeck', 'ImportContainer')] + [
          'opm/input/eclipse/Units/%s.cpp' % n for n in ('UnitSystem', 'Dimension')] + [
          'opm/common/%s.cpp' % n for n in ('OpmLog/OpmLog', 'OpmLog/Logger', 'OpmLog/LogUtil', 'OpmLog/KeywordLocation', 'utility/OpmInputError', 'utility/String', 'utility/shmatch', 'utility/numeric/calculateCellVol')] + [
          'opm/input/eclipse/Python/Python.cpp', 'opm/input/eclipse/Python/PythonInterp.cpp'] + ['_build/ParserKeywords/%s.cpp' % c for c in 'BCEGMP'] + [
          'opm/input/eclipse/EclipseState/Grid/%s.cpp' % n for n in ('Box', 'GridDims', 'EclipseGrid', 'Operate', 'FieldData', 'TranCalculator', 'SatfuncPropertyInitializers', 'MinpvMode', 'PinchMode', 'NNC', 'FaceDir')] + [
          'opm/input/eclipse/EclipseState/Runspec.cpp']
    out.append(dict(name='grid_section', src='h_section.cpp', defs={}, entry='h_grid_section', tus=ST, fp='real', loopmax=8000, maxsteps=400000000, timeout=900 if tier == 'quick' else 3600, opts=['--ctors'],
                    bounds='FieldProps(deck, grid) on a 3x2x2 grid, ACTNUM of 3 cells symbolic, all numbers of the GRID section symbolic reals'))
    return out
