// C12 (section level): the REAL FieldProps constructor scans the GRID section of a Deck that the real parser built - data arrays, EQUALS,
// COPY with an explicit box, MINVALUE/MAXVALUE with a defaulted box, a top-layer-only array - on a 3x2x2 grid with symbolic ACTNUM; the
// numbers in the deck are replaced by symbolic reals after parsing.  Reference: an interpreter on global arrays in deck units, converted once.
#include "/repo/opm/input/eclipse/EclipseState/Grid/FieldProps.cpp"
#include <opm/input/eclipse/Parser/Parser.hpp>
#include <opm/input/eclipse/Parser/ParseContext.hpp>
#include <opm/input/eclipse/Parser/ErrorGuard.hpp>
#include <opm/input/eclipse/Parser/InputErrorAction.hpp>
#include <opm/input/eclipse/Parser/ParserKeywords/B.hpp>
#include <opm/input/eclipse/Parser/ParserKeywords/C.hpp>
#include <opm/input/eclipse/Parser/ParserKeywords/E.hpp>
#include <opm/input/eclipse/Parser/ParserKeywords/G.hpp>
#include <opm/input/eclipse/Parser/ParserKeywords/M.hpp>
#include <opm/input/eclipse/Parser/ParserKeywords/P.hpp>
#include <opm/input/eclipse/EclipseState/Grid/EclipseGrid.hpp>
#include <opm/input/eclipse/EclipseState/Tables/TableManager.hpp>
#include <opm/input/eclipse/EclipseState/Runspec.hpp>
#include <verif.h>
using namespace Opm;
static const int GX = 3, GY = 2, GZ = 2, N = GX * GY * GZ;
alignas(16) static unsigned char tm_storage[sizeof(TableManager)];        // never read on these paths (saturation-function defaults only)
static void poke(const Deck& deck, const char* kw, std::size_t rec, std::size_t item, std::size_t j, double v) {
    auto& d = const_cast<std::vector<double>&>(deck[std::string(kw)].back().getRecord(rec).getItem(item).getData<double>()); d[j] = v;
}
#define NEAR(a, b) CHECK(EQ((a), (b)) || ((a) - (b) <= 1e-12 * ((b) < 0 ? -(b) : (b)) && (b) - (a) <= 1e-12 * ((b) < 0 ? -(b) : (b))))
extern "C" void h_grid_section(void) {
    const std::string text =
        "GRID\n"
        "PERMX\n 12*100 /\n"
        "EQUALS\n PERMY 5 /\n/\n"
        "COPY\n PERMX PERMY 1 2 1 1 1 2 /\n/\n"          // explicit box: I 1-2, J 1, K 1-2
        "MINVALUE\n PERMX 40 /\n/\n"                      // defaulted box: the whole grid, NOT the COPY box
        "MAXVALUE\n PERMY 70 /\n/\n"
        "BOX\n 1 3 1 2 1 1 /\n"
        "PORO\n 6*0.25 /\n"                               // top layer only: copied down the columns
        "ENDBOX\n";
    Parser parser(false);
    parser.addKeyword<ParserKeywords::GRID>(); parser.addKeyword<ParserKeywords::PERMX>(); parser.addKeyword<ParserKeywords::PERMY>(); parser.addKeyword<ParserKeywords::PORO>();
    parser.addKeyword<ParserKeywords::EQUALS>(); parser.addKeyword<ParserKeywords::COPY>(); parser.addKeyword<ParserKeywords::MINVALUE>(); parser.addKeyword<ParserKeywords::MAXVALUE>(); parser.addKeyword<ParserKeywords::BOX>(); parser.addKeyword<ParserKeywords::ENDBOX>();
    ParseContext ctx; ErrorGuard errors; ctx.update(InputErrorAction::THROW_EXCEPTION);
    const Deck deck = parser.parseString(text, ctx, errors);
    CHECK(deck.size() == 9);
    // symbolic numbers in place of the parsed ones (deck units: mD, fraction)
    double x[N], eq = verif_nondet_real(), tmin = verif_nondet_real(), tmax = verif_nondet_real(), por[GX * GY];
    for (int c = 0; c < N; ++c) { x[c] = verif_nondet_real(); ASSUME(x[c] > 0 && x[c] < 1e6); poke(deck, "PERMX", 0, 0, c, x[c]); }
    ASSUME(eq > 0 && eq < 1e6 && tmin > 0 && tmin < 1e6 && tmax > 0 && tmax < 1e6);
    poke(deck, "EQUALS", 0, 1, 0, eq); poke(deck, "MINVALUE", 0, 1, 0, tmin); poke(deck, "MAXVALUE", 0, 1, 0, tmax);
    for (int c = 0; c < GX * GY; ++c) { por[c] = verif_nondet_real(); ASSUME(por[c] > 0 && por[c] < 1); poke(deck, "PORO", 0, 0, c, por[c]); }
    EclipseGrid grid(GX, GY, GZ, 1.0, 1.0, 1.0, 0.0);
    std::vector<int> act(N, 1);
    act[1] = nondet_bool() ? 1 : 0; act[4] = nondet_bool() ? 1 : 0; act[8] = nondet_bool() ? 1 : 0;      // two top-layer cells and one bottom-layer cell
    grid.resetACTNUM(act);
    Phases phases(true, true, true);
    FieldProps fp(deck, phases, grid, *reinterpret_cast<const TableManager*>(tm_storage), 0);
    // reference, global arrays in deck units
    double permx[N], permy[N], poro[N];
    for (int c = 0; c < N; ++c) {
        const int i = c % GX, j = (c / GX) % GY;
        permy[c] = eq; if (i <= 1 && j == 0) permy[c] = x[c];
        permx[c] = x[c] < tmin ? tmin : x[c];
        if (permy[c] > tmax) permy[c] = tmax;
        poro[c] = por[i + GX * j];
    }
    const double mD = 1e-3 * (1e-2 * 1e-3) / (101325.0 / 1e-2);      // definition: 1 darcy = 1 (cm/s) cP / (atm/cm)
    const auto& px = fp.get<double>("PERMX"); const auto& py = fp.get<double>("PERMY"); const auto& po = fp.get<double>("PORO");
    std::size_t a = 0;
    for (int c = 0; c < N; ++c) if (act[c]) {
        CHECK(a < px.size() && a < py.size() && a < po.size());
#if !defined(WHICH) || WHICH == 1
        NEAR(px[a], permx[c] * mD);
#endif
#if !defined(WHICH) || WHICH == 2
        NEAR(py[a], permy[c] * mD);
#endif
#if !defined(WHICH) || WHICH == 3
        NEAR(po[a], poro[c]);
#endif
        ++a;
    }
    CHECK(a == px.size() && a == py.size() && a == po.size());
    errors.clear();
}
