// C06: the real WellConnections::loadCOMPDAT (public API) on a hand-built DeckRecord and a real ScheduleGrid/CompletedCells cell with
// symbolic geometry, permeabilities, NTG, skin, diameter and CF/Kh/r0 each explicitly given or defaulted; Peaceman relation and defaults.
#include <cmath>
#include <array>
#include <string>
#include <vector>
#include <optional>
#include <unordered_map>
#include <verif.h>
#include "/repo/opm/input/eclipse/Schedule/Well/WellConnections.cpp"
#include <opm/input/eclipse/Deck/DeckRecord.hpp>
#include <opm/input/eclipse/Deck/DeckItem.hpp>
#include <opm/input/eclipse/Units/Dimension.hpp>
#include <opm/input/eclipse/Schedule/CompletedCells.hpp>
#include <opm/input/eclipse/Schedule/ScheduleGrid.hpp>
#include <opm/input/eclipse/Schedule/Well/WDFAC.hpp>
#include <opm/common/OpmLog/KeywordLocation.hpp>
using namespace Opm;
#ifndef DIRN
#define DIRN 2      /* 0 X, 1 Y, 2 Z */
#endif
#define CEQ(a, b) CHECK(EQ((a), (b)))
static const double TWO_PI = 6.2831853071795864769;
static bool closeto(double a, double b, double rel) { double d = a - b; if (d < 0) d = -d; double m = b < 0 ? -b : b; return d <= rel * m; }

static DeckItem ditem(const char* n, bool given, double v) {
    DeckItem it(n, double(), { Dimension(1.0) }, { Dimension(1.0) });
    if (given) it.push_back(v); else it.push_backDummyDefault<double>();
    return it;
}
static DeckItem iitem(const char* n, int v) { DeckItem it(n, int()); it.push_back(v); return it; }
static DeckItem sitem(const char* n, const char* v) { DeckItem it(n, std::string()); it.push_back(std::string(v)); return it; }

struct In { double dx, dy, dz, kx, ky, kz, ntg, poro, depth, skin, diam, cf, kh, r0; bool diam_given, cf_given, kh_given, r0_given, kh_dflt; };
static DeckRecord mkrecord(const In& in, int i, int j, int k1, int k2) {
    std::vector<DeckItem> items;
    items.push_back(sitem("WELL", "W"));
    items.push_back(iitem("I", i)); items.push_back(iitem("J", j)); items.push_back(iitem("K1", k1)); items.push_back(iitem("K2", k2));
    items.push_back(sitem("STATE", "OPEN"));
    items.push_back(iitem("SAT_TABLE", 0));
    items.push_back(ditem("CONNECTION_TRANSMISSIBILITY_FACTOR", in.cf_given, in.cf));
    items.push_back(ditem("DIAMETER", in.diam_given, in.diam));
    { DeckItem it("Kh", double(), { Dimension(1.0) }, { Dimension(1.0) });
      if (in.kh_given) it.push_back(in.kh); else if (in.kh_dflt) it.push_backDefault(-1.0); else it.push_backDummyDefault<double>();
      items.push_back(it); }
    items.push_back(ditem("SKIN", true, in.skin));
    items.push_back(ditem("D_FACTOR", true, 0.0));
    items.push_back(sitem("DIR", DIRN == 0 ? "X" : DIRN == 1 ? "Y" : "Z"));
    items.push_back(ditem("PR", in.r0_given, in.r0));
    return DeckRecord(std::move(items));
}
static void fill_cell(CompletedCells& cc, int i, int j, int k, const In& in) {
    auto [valid, cell] = cc.try_get(i, j, k);
    cell.depth = in.depth; cell.dimensions = { in.dx, in.dy, in.dz };
    auto& p = cell.props.emplace(CompletedCells::Cell::Props{});
    p.active_index = 0; p.permx = in.kx; p.permy = in.ky; p.permz = in.kz; p.poro = in.poro; p.satnum = 3; p.pvtnum = 1; p.ntg = in.ntg;
}
static In mkinput() {
    In in;
    in.dx = verif_nondet_real(); in.dy = verif_nondet_real(); in.dz = verif_nondet_real(); in.kx = verif_nondet_real(); in.ky = verif_nondet_real(); in.kz = verif_nondet_real();
    in.ntg = verif_nondet_real(); in.poro = verif_nondet_real(); in.depth = verif_nondet_real(); in.skin = verif_nondet_real(); in.diam = verif_nondet_real();
    in.cf = verif_nondet_real(); in.kh = verif_nondet_real(); in.r0 = verif_nondet_real();
    ASSUME(in.dx > 0 && in.dy > 0 && in.dz > 0 && in.kx > 0 && in.ky > 0 && in.kz > 0 && in.ntg > 0 && in.poro > 0 && in.diam > 0 && in.r0 > 0);
    in.diam_given = nondet_bool(); in.cf_given = nondet_bool(); in.kh_given = nondet_bool(); in.r0_given = nondet_bool(); in.kh_dflt = nondet_bool();
    return in;
}
// the direction's permutation, written independently: (a, b) span the plane normal to the well, c is along it
static void perm_of_dir(const In& in, double& Ka, double& Kb, double& Da, double& Db, double& Dc) {
    const double dzn = in.dz * in.ntg;                        // NTG acts on the vertical extent only
    if (DIRN == 0) { Ka = in.ky; Kb = in.kz; Da = in.dy; Db = dzn; Dc = in.dx; }
    else if (DIRN == 1) { Ka = in.kz; Kb = in.kx; Da = dzn; Db = in.dx; Dc = in.dy; }
    else { Ka = in.kx; Kb = in.ky; Da = in.dx; Db = in.dy; Dc = dzn; }
}

extern "C" void h_compdat(void) {
    In in = mkinput();
    CompletedCells cc(2, 2, 2); fill_cell(cc, 0, 0, 0, in);
    ScheduleGrid grid(cc);
    WellConnections wc(Connection::Order::TRACK, 0, 0);
    DeckRecord rec = mkrecord(in, 1, 1, 1, 1);
    wc.loadCOMPDAT(rec, grid, "W", WDFAC(), KeywordLocation{});
    CHECK(wc.size() == 1);
    const Connection& c = wc.get(0);
    const auto& p = c.ctfProperties();
    double Ka, Kb, Da, Db, Dc; perm_of_dir(in, Ka, Kb, Da, Db, Dc);
    const double rw_e = in.diam_given ? in.diam / 2 : 0.5 * 0.3048;
    CEQ(c.rw(), rw_e); CEQ(c.skinFactor(), in.skin); CEQ(p.rw, rw_e); CEQ(p.skin_factor, in.skin);
    CHECK(c.getI() == 0 && c.getJ() == 0 && c.getK() == 0 && c.complnum() == 1 && c.satTableId() == 3);
    CHECK(c.dir() == (DIRN == 0 ? Connection::Direction::X : DIRN == 1 ? Connection::Direction::Y : Connection::Direction::Z));
    CEQ(c.depth(), in.depth);
    const bool cf_pos = in.cf_given && in.cf > 0, kh_pos = in.kh_given && in.kh > 0;
    const double r0_peaceman = 0.28 * (std::sqrt(std::sqrt(Kb / Ka) * Da * Da + std::sqrt(Ka / Kb) * Db * Db) / (std::pow(Ka / Kb, 0.25) + std::pow(Kb / Ka, 0.25)));
    const double kh_peaceman = std::sqrt(Ka * Kb) * Dc;
    CEQ(p.Ke, std::sqrt(Ka * Kb));
    // explicit values are stored unchanged
    if (cf_pos) CEQ(c.CF(), in.cf);
    if (kh_pos) CEQ(c.Kh(), in.kh);
    if (cf_pos && kh_pos) {
        if (in.r0_given) {
            // CF, Kh and r0 all entered: over-determined input, every explicit value is stored as entered (no relation can be demanded)
            CEQ(c.r0(), in.r0);
        } else {
            // r0 is back-computed so that the relation holds (inverse_peaceman uses an 8-digit pi: tolerance 1e-8)
            ASSUME(c.rw() < c.r0());
            CHECK(closeto(c.CF() * (std::log(c.r0() / c.rw()) + in.skin), TWO_PI * c.Kh(), 1e-8));
        }
    } else {
        // at least one of CF / Kh is derived
        const bool kh_zero_entered = cf_pos && in.kh_given && !(in.kh > 0) && !(in.kh < 0);      // Kh = 0 in the record: Kh from the cell, r0 recomputed
        if (!kh_pos && !(cf_pos && !kh_zero_entered)) CEQ(c.Kh(), kh_peaceman);                    // Kh defaulted (and not derived from CF)
        if (kh_zero_entered) CEQ(c.Kh(), kh_peaceman);
        if (!kh_zero_entered) {
            if (in.r0_given) CEQ(c.r0(), in.r0); else CEQ(c.r0(), r0_peaceman);
        }
        ASSUME(c.rw() < c.r0());
        const double denom = std::log(c.r0() / c.rw()) + in.skin;
        ASSUME(denom != 0.0);
        if (kh_zero_entered) CHECK(closeto(c.CF() * denom, TWO_PI * c.Kh(), 1e-8));     // r0 back-computed with the 8-digit pi
        else if (cf_pos) { CEQ(c.Kh(), c.CF() * denom / TWO_PI); CEQ(p.peaceman_denom, TWO_PI * c.Kh() / c.CF()); }     // Kh derived from the entered CF
        else { CEQ(c.CF(), TWO_PI * c.Kh() / denom); CEQ(p.peaceman_denom, denom); }                                    // CF derived: Peaceman's formula
    }
    CEQ(p.connection_length, c.Kh() / p.Ke);
}
