EXPLANATION = ('C06: the real WellConnections::loadCOMPDAT is driven through its public signature with a hand-built DeckRecord and a real ScheduleGrid/CompletedCells cell; '
  'geometry, permeabilities, NTG, skin, diameter, CF, Kh, r0 and the given/defaulted pattern are symbolic; the stored CTFProperties are checked against the Peaceman relation and the independently written default formulas.')
BOUNDS = 'one COMPDAT record, K1=K2, directions X/Y/Z (harness split), all positive real cell data, all 2^5 given/defaulted patterns (symbolic flags), values of either sign for CF/Kh'
OUTSIDE = 'COMPDAT parsing, CompletedCells capture from a real EclipseGrid/FieldPropsManager, well selection by name pattern in the WELOPEN/WPIMULT keyword handlers (the per-well record matching is covered), IEEE rounding, unit conversion of the items (dimension factor 1; see C02)'
ASSUMPTIONS = ['libm uninterpreted; axioms: sqrt(t)^2=t, exp>0, log(exp t)=t, t>0 => exp(log t)=t, pow(x,y)>0 for x>0', 'rw < r0 (the code clamps with min(rw,r0)); relation checked to 1e-8 relative because inverse_peaceman uses an 8-digit pi',
               'std::unordered_map rehash policy (_Prime_rehash_policy) modelled: grow when elements exceed buckets']
TUS = ['opm/input/eclipse/Schedule/Well/Connection.cpp', 'opm/input/eclipse/Schedule/ScheduleGrid.cpp', 'opm/input/eclipse/Schedule/CompletedCells.cpp', 'opm/input/eclipse/Deck/DeckRecord.cpp',
       'opm/input/eclipse/Deck/DeckItem.cpp', 'opm/input/eclipse/Deck/UDAValue.cpp', 'opm/input/eclipse/Units/Dimension.cpp', 'opm/input/eclipse/EclipseState/Grid/GridDims.cpp',
       'opm/io/eclipse/rst/connection.cpp', 'opm/input/eclipse/Schedule/Well/WDFAC.cpp', 'opm/common/OpmLog/KeywordLocation.cpp', 'opm/common/utility/String.cpp']
def jobs(tier):
    out = []
    for d, n in ((0, 'X'), (1, 'Y'), (2, 'Z')):
        out.append(dict(name='compdat_dir%s' % n, src='h_compdat.cpp', defs={'DIRN': d}, entry='h_compdat', tus=TUS, fp='real', loopmax=3000, maxsteps=6000000, bounds='direction %s' % n))
    WT = ['opm/input/eclipse/Schedule/Well/Well.cpp', 'opm/input/eclipse/Units/UnitSystem.cpp', 'opm/input/eclipse/Units/Dimension.cpp', 'opm/common/utility/String.cpp', 'opm/input/eclipse/Schedule/ScheduleTypes.cpp',
          'opm/common/utility/TimeService.cpp'] + ['opm/input/eclipse/Schedule/Well/%s.cpp' % n for n in ('Connection', 'WDFAC', 'WINJMULT', 'WVFPDP', 'WVFPEXP', 'WellBrineProperties', 'WellConnections',
          'WellEconProductionLimits', 'WellEnums', 'WellFoamProperties', 'WellInjectionProperties', 'WellMICPProperties', 'WellPolymerProperties', 'WellProductionProperties', 'WellTracerProperties', 'FilterCake', 'PAvg')] + [
          'opm/input/eclipse/Schedule/MSW/WellSegments.cpp', 'opm/input/eclipse/Schedule/MSW/Segment.cpp', 'opm/input/eclipse/Deck/UDAValue.cpp', 'opm/input/eclipse/Schedule/VFPProdTable.cpp', 'opm/input/eclipse/EclipseState/Phase.cpp',
          'opm/input/eclipse/Deck/DeckRecord.cpp', 'opm/input/eclipse/Deck/DeckItem.cpp', 'opm/common/OpmLog/KeywordLocation.cpp', 'opm/input/eclipse/Schedule/ScheduleGrid.cpp', 'opm/input/eclipse/Schedule/CompletedCells.cpp',
          'opm/input/eclipse/EclipseState/Grid/GridDims.cpp', 'opm/io/eclipse/rst/connection.cpp']
    out.append(dict(name='wpimult', src='h_wpimult.cpp', defs={'ALLMODES': 0 if tier == 'quick' else 1}, entry='h_wpimult', tus=WT, fp='real', loopmax=100000, maxsteps=400000000, timeout=1500, opts=['--ctors'],
                    bounds='a well with three connections; record items I J K FIRST LAST each defaulted / entered as 0 (quick: not for I, J) / entered 1..3 (symbolic), all positive factors'))
    out.append(dict(name='welopen_conn', src='h_wpimult.cpp', defs={'ALLMODES': 0 if tier == 'quick' else 1}, entry='h_welopen_conn', tus=WT, fp='real', loopmax=100000, maxsteps=400000000, timeout=900, opts=['--ctors'],
                    bounds='a well with three connections; record items I J K C1 C2 each defaulted / entered as 0 / entered 1..3 (symbolic)'))
    return out
