EXPLANATION = ('C06: the real WellConnections::loadCOMPDAT is driven through its public signature with a hand-built DeckRecord and a real ScheduleGrid/CompletedCells cell; '
  'geometry, permeabilities, NTG, skin, diameter, CF, Kh, r0 and the given/defaulted pattern are symbolic; the stored CTFProperties are checked against the Peaceman relation and the independently written default formulas.')
BOUNDS = 'one COMPDAT record, K1=K2, directions X/Y/Z (harness split), all positive real cell data, all 2^5 given/defaulted patterns (symbolic flags), values of either sign for CF/Kh'
OUTSIDE = 'COMPDAT parsing, CompletedCells capture from a real EclipseGrid/FieldPropsManager, WELOPEN/WPIMULT well selection, IEEE rounding, unit conversion of the items (dimension factor 1; see C02)'
ASSUMPTIONS = ['libm uninterpreted; axioms: sqrt(t)^2=t, exp>0, log(exp t)=t, t>0 => exp(log t)=t, pow(x,y)>0 for x>0', 'rw < r0 (the code clamps with min(rw,r0)); relation checked to 1e-8 relative because inverse_peaceman uses an 8-digit pi',
               'std::unordered_map rehash policy (_Prime_rehash_policy) modelled: grow when elements exceed buckets']
TUS = ['opm/input/eclipse/Schedule/Well/Connection.cpp', 'opm/input/eclipse/Schedule/ScheduleGrid.cpp', 'opm/input/eclipse/Schedule/CompletedCells.cpp', 'opm/input/eclipse/Deck/DeckRecord.cpp',
       'opm/input/eclipse/Deck/DeckItem.cpp', 'opm/input/eclipse/Deck/UDAValue.cpp', 'opm/input/eclipse/Units/Dimension.cpp', 'opm/input/eclipse/EclipseState/Grid/GridDims.cpp',
       'opm/io/eclipse/rst/connection.cpp', 'opm/input/eclipse/Schedule/Well/WDFAC.cpp', 'opm/common/OpmLog/KeywordLocation.cpp', 'opm/common/utility/String.cpp']
def jobs(tier):
    out = []
    for d, n in ((0, 'X'), (1, 'Y'), (2, 'Z')):
        out.append(dict(name='compdat_dir%s' % n, src='h_compdat.cpp', defs={'DIRN': d}, entry='h_compdat', tus=TUS, fp='real', loopmax=3000, maxsteps=6000000, bounds='direction %s' % n))
    return out
