// C06: "applying WPIMULT changes only the targeted connections, leaving the order, completion numbers and factors of all other connections
// as they were" - the real Well::handleWPIMULT and Well::handleWELOPENConnections on a real Well with three connections, record items
// symbolically given / defaulted / zero; targeted = I, J, K (one-based) equal where given, FIRST <= completion number <= LAST where given.
#include <string>
#include <vector>
#include <memory>
#include <opm/input/eclipse/Schedule/Well/Well.hpp>
#include <opm/input/eclipse/Schedule/Well/WellConnections.hpp>
#include <opm/input/eclipse/Schedule/Well/Connection.hpp>
#include <opm/input/eclipse/Schedule/ScheduleTypes.hpp>
#include <opm/input/eclipse/EclipseState/Phase.hpp>
#include <opm/input/eclipse/Units/UnitSystem.hpp>
#include <opm/input/eclipse/Deck/DeckRecord.hpp>
#include <opm/input/eclipse/Deck/DeckItem.hpp>
#include <verif.h>
#ifndef VERIF_NATIVE
#include <opm/input/eclipse/Parser/ParserKeywords/W.hpp>
const std::string Opm::ParserKeywords::WPAVE::DEPTH_CORRECTION::defaultValue = "WELL";
const std::string Opm::ParserKeywords::WPAVE::CONNECTION::defaultValue = "OPEN";
#endif
using namespace Opm;
#ifndef ALLMODES
#define ALLMODES 0
#endif
#define CEQ(a, b) CHECK(EQ((a), (b)))
static const int CI[3] = { 0, 0, 1 }, CJ[3] = { 0, 0, 0 }, CK[3] = { 0, 1, 1 };         // zero-based cells of the three connections
static DeckItem iitem(const char* name, int mode, int v) { DeckItem it(name, int()); if (mode == 0) it.push_backDummyDefault<int>(); else it.push_back(mode == 1 ? 0 : v); return it; }
struct Sel { int mode[5]; int val[5]; };                                                    // I J K FIRST LAST: 0 defaulted, 1 entered as 0 (= any), 2 entered value
static Sel mksel() {
    Sel s;
    for (int c = 0; c < 5; ++c) { s.mode[c] = (c < 2 && !ALLMODES) ? 2 * (int) verif_concretize(nondet_ulong(), 1) : (int) verif_concretize(nondet_ulong(), 2); s.val[c] = nondet_int(); ASSUME(s.val[c] >= 1 && s.val[c] <= 3); }    // entered values 1..3 (symbolic)
    return s;
}
static bool targeted(const Sel& s, int n, int complnum) {
    if (s.mode[0] == 2 && s.val[0] - 1 != CI[n]) return false;
    if (s.mode[1] == 2 && s.val[1] - 1 != CJ[n]) return false;
    if (s.mode[2] == 2 && s.val[2] - 1 != CK[n]) return false;
    if (s.mode[3] == 2 && complnum < s.val[3]) return false;
    if (s.mode[4] == 2 && complnum > s.val[4]) return false;
    return true;
}
static Well mkwell(double cf[3]) {
    Well w("W1", "G1", 0, 0, 0, 0, 100.0, WellType(true, Phase::OIL), Well::ProducerCMode::ORAT, Connection::Order::INPUT, UnitSystem::newMETRIC(), -1.0, 0.0, true, true, 0, Well::GasInflowEquation::STD);
    auto conns = std::make_shared<WellConnections>(Connection::Order::INPUT, 0, 0);
    for (int n = 0; n < 3; ++n) {
        Connection::CTFProperties p; p.CF = cf[n]; p.Kh = 10.0 + n; p.rw = 0.1; p.r0 = 5.0; p.skin_factor = 0.0; p.peaceman_denom = 4.0;
        conns->addConnection(CI[n], CJ[n], CK[n], (std::size_t) (CI[n] + 2 * (CJ[n] + 2 * CK[n])), Connection::State::OPEN, 1000.0 + n, p, 1, Connection::Direction::Z, Connection::CTFKind::DeckValue, (std::size_t) n, true);
    }
    w.updateConnections(conns, true);
    return w;
}
extern "C" void h_wpimult(void) {
    double cf[3]; for (double& c : cf) { c = verif_nondet_real(); ASSUME(c > 0); }
    Well w = mkwell(cf);
    int compl0[3]; for (int n = 0; n < 3; ++n) { compl0[n] = w.getConnections()[n].complnum(); }
    CHECK(compl0[0] == 1 && compl0[1] == 2 && compl0[2] == 3);                    // completion numbers in input order
    Sel s = mksel(); double f = verif_nondet_real(); ASSUME(f > 0);
    DeckRecord rec; rec.addItem(iitem("I", s.mode[0], s.val[0])); rec.addItem(iitem("J", s.mode[1], s.val[1])); rec.addItem(iitem("K", s.mode[2], s.val[2]));
    rec.addItem(iitem("FIRST", s.mode[3], s.val[3])); rec.addItem(iitem("LAST", s.mode[4], s.val[4]));
    { DeckItem it("WELLPI", double(), { Dimension(1.0) }, { Dimension(1.0) }); it.push_back(f); rec.addItem(it); }
    w.handleWPIMULT(rec);
    const auto& c = w.getConnections(); CHECK(c.size() == 3);
    for (int n = 0; n < 3; ++n) {
        CHECK(c[n].getI() == CI[n] && c[n].getJ() == CJ[n] && c[n].getK() == CK[n] && c[n].complnum() == compl0[n]);       // order and completion numbers untouched
        if (targeted(s, n, compl0[n])) CEQ(c[n].CF(), cf[n] * f); else CEQ(c[n].CF(), cf[n]);
        CEQ(c[n].Kh(), 10.0 + n); CHECK(c[n].state() == Connection::State::OPEN);
    }
}
extern "C" void h_welopen_conn(void) {
    double cf[3] = { 1.0, 2.0, 3.0 };
    Well w = mkwell(cf);
    Sel s = mksel();
    DeckRecord rec; rec.addItem(iitem("I", s.mode[0], s.val[0])); rec.addItem(iitem("J", s.mode[1], s.val[1])); rec.addItem(iitem("K", s.mode[2], s.val[2]));
    rec.addItem(iitem("C1", s.mode[3], s.val[3])); rec.addItem(iitem("C2", s.mode[4], s.val[4]));
    w.handleWELOPENConnections(rec, Connection::State::SHUT);
    const auto& c = w.getConnections(); CHECK(c.size() == 3);
    for (int n = 0; n < 3; ++n) {
        CHECK(c[n].getI() == CI[n] && c[n].getK() == CK[n] && c[n].complnum() == n + 1);
        CHECK(c[n].state() == (targeted(s, n, n + 1) ? Connection::State::SHUT : Connection::State::OPEN));
        CEQ(c[n].CF(), cf[n]);
    }
}
