// C18 (condition level): the real ACTIONX condition parser (ActionParser.cpp) and AST evaluation (ASTNode.cpp, ActionContext.cpp) on
// conditions built from three comparisons A, B, C over summary quantities with symbolic values:
//   A AND B OR C,  A OR B AND C,  ( A OR B ) AND C,  A AND ( B OR C ),  A AND B AND C,  A OR B OR C
// AND binds tighter than OR, parentheses are honoured; for well-level comparisons ("WOPR '*' > x") the matching wells are those for which
// the comparison holds, intersected under AND and united under OR, a scalar (field) comparison contributes no set.
#include <string>
#include <vector>
#include <algorithm>
#include <opm/input/eclipse/Schedule/Action/ActionAST.hpp>
#include <opm/input/eclipse/Schedule/Action/ActionContext.hpp>
#include <opm/input/eclipse/Schedule/Action/ActionResult.hpp>
#include <opm/input/eclipse/Schedule/SummaryState.hpp>
#include <opm/input/eclipse/Schedule/Well/WListManager.hpp>
#include <verif.h>
using namespace Opm;
#ifndef CFORM
#define CFORM 0
#endif
static const char* WN[3] = { "P1", "P2", "P3" };
typedef std::vector<std::string> Toks;
static Toks cat(std::initializer_list<Toks> parts) { Toks t; for (const auto& p : parts) t.insert(t.end(), p.begin(), p.end()); return t; }
static Toks form(const Toks& A, const Toks& B, const Toks& C) {
    const Toks AND { "AND" }, OR { "OR" }, L { "(" }, R { ")" };
    switch (CFORM) {
    case 0: return cat({ A, AND, B, OR, C });
    case 1: return cat({ A, OR, B, AND, C });
    case 2: return cat({ L, A, OR, B, R, AND, C });
    case 3: return cat({ A, AND, L, B, OR, C, R });
    case 4: return cat({ A, AND, B, AND, C });
    case 5: return cat({ A, OR, B, OR, C });
    case 6: return cat({ L, C, OR, A, R, AND, B });          // a scalar first in the OR, then AND with a well comparison
    default: return cat({ L, A, OR, C, R, AND, B });
    }
}
static bool truth(bool a, bool b, bool c) {
    switch (CFORM) { case 0: return (a && b) || c; case 1: return a || (b && c); case 2: return (a || b) && c; case 3: return a && (b || c); case 4: return a && b && c; case 5: return a || b || c; default: return (c || a) && b; }
}
// scalar conditions only: truth value
extern "C" void h_scalar_conditions(void) {
    SummaryState st(std::time_t{ 0 }); WListManager wlm;
    double v[3]; for (int i = 0; i < 3; ++i) { v[i] = verif_nondet_real(); ASSUME(v[i] > 1 || v[i] < -1); }      // away from the comparison threshold 0
    st.update("FOPR", v[0]); st.update("FWPR", v[1]); st.update("FGPR", v[2]);
    Action::AST ast(form({ "FOPR", ">", "0" }, { "FWPR", ">", "0" }, { "FGPR", ">", "0" }));
    Action::Context ctx(st, wlm);
    Action::Result r = ast.eval(ctx);
    CHECK(r.conditionSatisfied() == truth(v[0] > 0, v[1] > 0, v[2] > 0));
    CHECK(r.matches().wells().asVector().empty());                    // scalar conditions carry no well set
}
// well-level conditions: A, B on all wells, C scalar
extern "C" void h_well_conditions(void) {
    SummaryState st(std::time_t{ 0 }); WListManager wlm;
    double o[3], w[3], f;
    for (int i = 0; i < 3; ++i) { o[i] = verif_nondet_real(); w[i] = verif_nondet_real(); ASSUME(o[i] > 2 || o[i] < 0); ASSUME(w[i] > 2 || w[i] < 0); st.update_well_var(WN[i], "WOPR", o[i]); st.update_well_var(WN[i], "WWPR", w[i]); }
    f = verif_nondet_real(); ASSUME(f > 1 || f < -1); st.update("FGPR", f);
    Action::AST ast(form({ "WOPR", "*", ">", "1" }, { "WWPR", "*", ">", "1" }, { "FGPR", ">", "0" }));
    Action::Context ctx(st, wlm);
    Action::Result r = ast.eval(ctx);
    bool A[3], B[3], anyA = false, anyB = false; for (int i = 0; i < 3; ++i) { A[i] = o[i] > 1; B[i] = w[i] > 1; anyA = anyA || A[i]; anyB = anyB || B[i]; }
    const bool C = f > 0;
    CHECK(r.conditionSatisfied() == truth(anyA, anyB, C));
    if (r.conditionSatisfied()) {
        // set algebra: AND = intersection, OR = union; a scalar or false operand contributes no set
        for (int i = 0; i < 3; ++i) {
            bool in;
            switch (CFORM) {
            case 0: in = anyA && anyB && A[i] && B[i]; break;                                                                  // (A and B) or C : the scalar C contributes no set
            case 1: in = A[i] || ((anyB && C) ? B[i] : false); break;                                                           // A or (B and C)
            case 2: in = A[i] || B[i]; break;                                                                                  // (A or B) and C
            case 3: in = anyB ? (A[i] && B[i]) : A[i]; break;                                                                   // A and (B or C) : (B or C) carries B's wells when B holds somewhere, no set otherwise
            case 4: in = A[i] && B[i]; break;
            case 5: in = A[i] || B[i]; break;
            default: in = anyA ? (A[i] && B[i]) : B[i]; break;                                                                  // (C or A) and B, (A or C) and B: a scalar or false operand of the OR contributes no set
            }
            CHECK(r.matches().hasWell(WN[i]) == in);
        }
    }
}
