// C18: ACTIONX result-set algebra (Result / MatchingEntities on the public API), comparison evaluation (Value::eval_cmp) and the
// triggering limits as one inductive step from an ARBITRARY prior run state (ActionX::ready, State::add_run/run_count/run_time).
#include <string>
#include <vector>
#include <map>
#include <ctime>
#include <stdexcept>
#include <verif.h>
#define private public
#include <opm/input/eclipse/Schedule/Action/State.hpp>
#undef private
#include <opm/input/eclipse/Schedule/Action/ActionResult.hpp>
#include <opm/input/eclipse/Schedule/Action/ActionValue.hpp>
#include <opm/input/eclipse/Schedule/Action/ActionX.hpp>
using namespace Opm::Action;
#ifndef NA
#define NA 3
#endif
#ifndef NB
#define NB 2
#endif
#ifndef ALPHA
#define ALPHA 3
#endif
// a well name from a small alphabet, chosen by the solver: "A".."D" are mapped to ids 0..3
static std::string pick(int& id) {
    id = nondet_int(); ASSUME(id >= 0 && id < ALPHA);
    switch (id) { case 0: id = 0; return "A"; case 1: id = 1; return "B"; case 2: id = 2; return "C"; default: id = 3; return "D"; }   // one path per name: later string comparisons are concrete
}
static unsigned maskof(const Result& r) { unsigned m = 0; for (int k = 0; k < ALPHA; ++k) if (r.matches().hasWell(std::string(1, char('A' + k)))) m |= 1u << k; return m; }
static void check_range(const Result& r, unsigned expect) {       // the exported range is sorted, duplicate free and equals the expected bit set
    unsigned m = 0; std::string prev; bool first = true;
    for (const auto& w : r.matches().wells()) { CHECK(w.size() == 1); if (!first) CHECK(prev < w); prev = w; first = false; m |= 1u << (w[0] - 'A'); }
    CHECK(m == expect); CHECK(maskof(r) == expect);
}
static Result mk(bool truth, bool has_set, int n, unsigned& mask) {
    Result r(truth); mask = 0;
    if (has_set) { std::vector<std::string> ws; for (int i = 0; i < n; ++i) { int id; ws.push_back(pick(id)); mask |= 1u << id; } r.wells(ws); }
    return r;
}
extern "C" void h_sets(void) {
#ifdef FLAGS
    const bool ta = FLAGS & 1, tb = FLAGS & 2, sa = FLAGS & 4, sb = FLAGS & 8;
#else
    bool ta = nondet_bool(), tb = nondet_bool(), sa = nondet_bool(), sb = nondet_bool();
#endif
    unsigned ma, mb;
    Result a = mk(ta, sa, NA, ma), b = mk(tb, sb, NB, mb);
    check_range(a, ma); check_range(b, mb);
    {   // AND: conjunction of truth values; intersection of match sets, where an operand without a set contributes none
        Result c = a; c.makeSetIntersection(b);
        CHECK(c.conditionSatisfied() == (ta && tb));
        unsigned e = !(ta && tb) ? 0u : (!sb ? ma : (!sa ? mb : (ma & mb)));
        check_range(c, e);
        Result d = b; d.makeSetIntersection(a);                   // commutative
        CHECK(d.conditionSatisfied() == c.conditionSatisfied()); CHECK(maskof(d) == maskof(c));
    }
    {   // OR: disjunction; union of the sets of the TRUE operands (a scalar or a false operand contributes no set).  The lhs is the
        // accumulator of ASTNode::evalLogicalOperation, which starts as Result(false) without a set and only ever receives sets from true
        // operands, so a false lhs carries no set in any reachable state; a false rhs (a child result) may carry any set and must be ignored.
        Result c = (!ta && sa) ? Result(false) : a; c.makeSetUnion(b);
        CHECK(c.conditionSatisfied() == (ta || tb));
        const bool has = (ta && sa) || (tb && sb);                // does the OR node carry a set at all
        unsigned e = (ta ? ma : 0u) | (tb ? mb : 0u);
        check_range(c, e);
        // ... which a following AND with a well-level operand shows: no set -> the other operand's set, a set (even empty) -> the intersection
        unsigned mt; Result t = mk(true, true, 1, mt);
        Result f = c; f.makeSetIntersection(t);
        CHECK(f.conditionSatisfied() == (ta || tb));
        check_range(f, !(ta || tb) ? 0u : (has ? (e & mt) : mt));
    }
    CHECK((a == b) == (ta == tb && ((sa ? 1 : 0) == (sb ? 1 : 0)) && ma == mb) || (sa != sb));   // equality is on truth + set
}
// chains of three operands: (a AND b) AND c and (a OR b) OR c; an EMPTY running intersection must stay empty
extern "C" void h_sets3(void) {
    unsigned ma, mb, mc; const bool sb = nondet_bool();
    Result a = mk(true, true, 2, ma), b = mk(true, sb, 2, mb), c = mk(true, true, 2, mc);
    Result r = a; r.makeSetIntersection(b); r.makeSetIntersection(c);
    CHECK(r.conditionSatisfied());
    check_range(r, sb ? (ma & mb & mc) : (ma & mc));
    Result u = a; u.makeSetUnion(b); u.makeSetUnion(c);
    check_range(u, ma | mb | mc);
    Result l = b; l.makeSetIntersection(a); l.makeSetIntersection(c);      // scalar (set-less) operand first
    check_range(l, sb ? (ma & mb & mc) : (ma & mc));
}
#ifndef CMPOP
#define CMPOP 4
#endif
extern "C" void h_cmp(void) {
    const TokenType op = (TokenType) CMPOP;
    double x = verif_nondet_real(), y = verif_nondet_real(), v[3] = { verif_nondet_real(), verif_nondet_real(), verif_nondet_real() };
    auto holds = [op](double l, double r) { switch (op) { case TokenType::op_gt: return l > r; case TokenType::op_ge: return l >= r; case TokenType::op_lt: return l < r;
                                                         case TokenType::op_le: return l <= r; case TokenType::op_eq: return l == r; default: return l != r; } };
    Result s = Value(x).eval_cmp(op, Value(y));
    CHECK(s.conditionSatisfied() == holds(x, y)); CHECK(s.matches().wells().empty());
    Value w; w.add_well("A", v[0]); w.add_well("B", v[1]); w.add_well("C", v[2]);
    Result r = w.eval_cmp(op, Value(y));
    unsigned e = (holds(v[0], y) ? 1u : 0u) | (holds(v[1], y) ? 2u : 0u) | (holds(v[2], y) ? 4u : 0u);
    CHECK(r.conditionSatisfied() == (e != 0)); check_range(r, e);
    bool threw = false; try { Value(x).eval_cmp(op, w); } catch (const std::invalid_argument&) { threw = true; } CHECK(threw);       // rhs must be scalar
    threw = false; try { Value(x).eval_cmp(TokenType::op_and, Value(y)); } catch (const std::invalid_argument&) { threw = true; } CHECK(threw);
}
// one inductive step: from ANY prior (count c, last run tau) the action is ready iff the limits allow it, and add_run advances the state by one run at t
extern "C" void h_ready(void) {
    unsigned long max_run = nondet_ulong(), c = nondet_ulong(); long start = nondet_long(), t = nondet_long(), tau = nondet_long(); double min_wait = verif_nondet_real();
    const long LIM = 1L << 40;
    ASSUME(max_run <= 1000000 && c <= 1000001 && start > -LIM && start < LIM && t > -LIM && t < LIM && tau > -LIM && tau < LIM);
    ActionX act("ACT", max_run, min_wait, start);
    State st;
    if (c > 0) { st.add_run(act, tau, Result(true)); st.run_state.begin()->second.run_count = c; }
    CHECK(st.run_count(act) == c);
    if (c > 0) CHECK(st.run_time(act) == tau);
    const bool ready = act.ready(st, t);
    const bool allowed = c < max_run && t >= start && (c == 0 || min_wait <= 0.0 || (double) t - (double) tau >= min_wait)   /* elapsed seconds as difftime computes them */;
    CHECK(ready == allowed);
    st.add_run(act, t, Result(true));
    CHECK(st.run_count(act) == c + 1); CHECK(st.run_time(act) == t);
}
