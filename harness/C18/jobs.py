EXPLANATION = ('C18: Action::Result / MatchingEntities set algebra (public API; SortedVectorSet<std::string> underneath) with symbolic well names, truth values and presence of match sets; '
  'Value::eval_cmp for each comparator with symbolic operands; ActionX::ready + State::add_run as one inductive step from an arbitrary prior run state.')
BOUNDS = 'match sets of 3 and 2 wells drawn (with repetition) from a 3-letter alphabet (thorough: 4 letters, 3+3 wells); all real comparison operands, 3 wells; run counts <= 10^6, times within +-2^40 s'
OUTSIDE = 'condition parsing and AST evaluation against a SummaryState (Action::Context, wildcards, date quantities), Actions::pending over a real schedule'
ASSUMPTIONS = ['difftime(a,b) = (double)(a-b)', 'doubles as reals', 'std::map executed from headers with the rb-tree rebalance modelled as plain BST insert']
TUS = ['opm/input/eclipse/Schedule/Action/ActionResult.cpp', 'opm/input/eclipse/Schedule/Action/ActionValue.cpp']
TUS2 = TUS + ['opm/input/eclipse/Schedule/Action/ActionX.cpp', 'opm/input/eclipse/Schedule/Action/State.cpp']
def jobs(tier):
    out = []
    for fl in range(16):
        out.append(dict(name='sets_a3_f%d' % fl, src='h_action.cpp', defs={'ALPHA': 3, 'NA': 3, 'NB': 2, 'FLAGS': fl}, entry='h_sets', tus=TUS, fp='real', loopmax=4000, maxsteps=40000000,
                        partial_sites=(fl < 4), bounds='3+2 wells over {A,B,C}; truth values / set presence pattern %d' % fl))
    if tier != 'quick':
        for fl in (12, 13, 14, 15, 7, 11):
          out.append(dict(name='sets_a4_f%d' % fl, src='h_action.cpp', defs={'ALPHA': 4, 'NA': 3, 'NB': 3, 'FLAGS': fl}, entry='h_sets', tus=TUS, fp='real', loopmax=4000, maxsteps=400000000, bounds='3+3 wells over {A,B,C,D}'))
    out.append(dict(name='sets_chain3', src='h_action.cpp', defs={'ALPHA': 3}, entry='h_sets3', tus=TUS, fp='real', loopmax=4000, maxsteps=400000000, bounds='three operands of 2 wells over {A,B,C}, middle operand with or without a match set'))
    for op in (4, 5, 6, 7, 8, 9):
        out.append(dict(name='cmp_op%d' % op, src='h_action.cpp', defs={'CMPOP': op}, entry='h_cmp', tus=TUS, fp='real', loopmax=4000, maxsteps=4000000, bounds='comparator token %d' % op))
    out.append(dict(name='ready_step', src='h_action.cpp', defs={}, entry='h_ready', tus=TUS2, fp='ieee', loopmax=4000, maxsteps=4000000, bounds='arbitrary prior state, one step'))
    AT = ['opm/input/eclipse/Schedule/Action/%s.cpp' % n for n in ('ASTNode', 'ActionAST', 'ActionContext', 'ActionParser', 'ActionResult', 'ActionValue', 'Enums')] + [
          'opm/input/eclipse/Schedule/SummaryState.cpp', 'opm/input/eclipse/Schedule/Well/WListManager.cpp', 'opm/input/eclipse/Schedule/Well/WList.cpp', 'opm/common/utility/TimeService.cpp',
          'opm/common/utility/shmatch.cpp', 'opm/common/utility/String.cpp', 'opm/input/eclipse/EclipseState/SummaryConfig/SummaryConfig.cpp']
    for f in range(8):
        if f < 6: out.append(dict(name='parse_scalar_form%d' % f, src='h_actparse.cpp', defs={'CFORM': f}, entry='h_scalar_conditions', tus=AT, fp='real', loopmax=20000, maxsteps=80000000, timeout=900, opts=['--ctors'],
                        bounds='three field comparisons, form %d of AND/OR/parentheses, all real values away from the threshold' % f))
        out.append(dict(name='parse_wells_form%d' % f, src='h_actparse.cpp', defs={'CFORM': f}, entry='h_well_conditions', tus=AT, fp='real', loopmax=20000, maxsteps=80000000, timeout=900, opts=['--ctors'],
                        bounds='two well comparisons over 3 wells and one field comparison, form %d' % f))
    return out
