EXPLANATION = ('C08: a unified restart file of three report steps with symbolic, strictly increasing SEQNUM values is produced by the real writer; the real ERst (EclFile::load + initUnified) indexes it; '
  'ERst::restartStepWritePosition/EclFile::seekPosition and OutputStream::Restart::openUnified/openExisting (truncate, append) are run for a symbolic requested step and the resulting file is re-read: '
  'earlier steps byte for byte, the written step last, nothing else; (second part) every truncation of an unformatted array either reads back exactly or raises an error.')
BOUNDS = 'one inductive step from any valid file of 3 report steps (3 arrays each), SEQNUM values symbolic with gaps 1..3 starting in 0..2, requested step symbolic from 0 to last+2; truncation: every byte offset of a two-array file'
OUTSIDE = 'formatted files, EclipseIO\'s choice of the step, the real file system (resize_file modelled as truncate), files with other array layouts per step'
ASSUMPTIONS = ['files are named in-memory byte arrays; std::fstream/ifstream/ofstream, std::filesystem::path/resize_file and Opm::EclIO::isFormatted (extension test) are models of engine/cxxrt.py',
               'the EclOutput and OutputStream::Restart objects used for writing are laid out by the harness (openUnified is the first real call)']
TUS = ['opm/io/eclipse/EclOutput.cpp', 'opm/io/eclipse/EclUtil.cpp', 'opm/io/eclipse/EclFile.cpp', 'opm/io/eclipse/ERst.cpp', 'opm/io/eclipse/OutputStream.cpp']
def jobs(tier):
    cuts = [dict(name='truncated_%d_%d' % (lo, hi), src='h_restart.cpp', defs={'CUTLO': lo, 'CUTHI': hi}, entry='h_truncated', tus=TUS, fp='ieee', loopmax=4000, maxsteps=40000000, partial_sites=True, bounds='cut offsets %d..%d of a 128-byte file' % (lo, hi)) for lo, hi in ((0, 44), (45, 88), (89, 128))]
    return cuts + [dict(name='rewind_3steps', src='h_restart.cpp', defs={'NSTEPS': 3}, entry='h_rewind', tus=TUS, fp='ieee', loopmax=4000, maxsteps=40000000, bounds='3 existing steps, symbolic requested step')]
