// C08: unified restart files under rewinds: ERst index (EclFile::load + initUnified on the bytes), restartStepWritePosition / seekPosition,
// OutputStream::Restart::openUnified -> openExisting (truncate + append), for an arbitrary valid file of three report steps with SYMBOLIC,
// strictly increasing SEQNUM values and a SYMBOLIC requested step; and reads of a file cut at every byte offset.
#include <fstream>
#include <string>
#include <vector>
#include <memory>
#include <filesystem>
#include <cstring>
#include <verif.h>
#include <memfile.h>
#define private public
#define protected public
#include <opm/io/eclipse/EclOutput.hpp>
#include <opm/io/eclipse/EclFile.hpp>
#include <opm/io/eclipse/ERst.hpp>
#include <opm/io/eclipse/OutputStream.hpp>
#undef private
#undef protected
#include <opm/io/eclipse/EclUtil.hpp>
using namespace Opm::EclIO;
#ifndef NSTEPS
#define NSTEPS 3
#endif
static const char* FNAME = "CASE.UNRST";
alignas(16) static unsigned char out_storage[sizeof(EclOutput)];
alignas(16) static unsigned char rst_storage[sizeof(OutputStream::Restart)];
// one report step: SEQNUM (1 int), INTEHEAD (3 ints), PRESSURE (2 doubles)  => 36 + 36 + 40 = 112 bytes
#ifndef SEQONLY
#define SEQONLY 0            // 1: a report step consists of its SEQNUM record only
#endif
static const long STEP_BYTES = SEQONLY ? (24 + 12) : (24 + 12) + (24 + 20) + (24 + 24);
static void write_step(EclOutput& out, int seq, int tag) {
    out.write(std::string("SEQNUM"), std::vector<int>{ seq });
    if (SEQONLY) return;
    out.write(std::string("INTEHEAD"), std::vector<int>{ tag, seq, 7 });
    out.write(std::string("PRESSURE"), std::vector<double>{ 1.5 * tag, 2.5 });
}
extern "C" void h_rewind(void) {
    // SEQNUM values: symbolic, strictly increasing, gaps of 1..3 (every relative position of the requested step - before, equal, between, after - occurs;
    // the values are kept small because each distinct value selects its own hash bucket, i.e. its own path, in the reader's unordered_map)
    int seq[NSTEPS]; for (int i = 0; i < NSTEPS; ++i) { seq[i] = nondet_int(); if (i) ASSUME(seq[i] > seq[i - 1] && seq[i] <= seq[i - 1] + 3); else ASSUME(seq[i] >= 0 && seq[i] <= 2); }
    int s = nondet_int(); ASSUME(s >= 0 && s <= seq[NSTEPS - 1] + 2);
#ifdef VERIF_NATIVE
    verif_memfile_name(1, FNAME); EclOutput* out = new EclOutput(FNAME, false, std::ios::out);
#else
    EclOutput* out = reinterpret_cast<EclOutput*>(out_storage); out->isFormatted = false; out->ix_standard = false;
    verif_stream_bind(&out->ofileH, 1, 0); verif_memfile_name(1, FNAME);
#endif
    for (int i = 0; i < NSTEPS; ++i) write_step(*out, seq[i], 10 + i);
    out->flushStream();
    CHECK(verif_memfile_size(1) == NSTEPS * STEP_BYTES);
    std::vector<unsigned char> before(verif_memfile_size(1)); for (size_t i = 0; i < before.size(); ++i) before[i] = verif_memfile_byte(1, i);
    // --- the reader's view of the file
    ERst rst{ std::string(FNAME) };
    CHECK(rst.listOfReportStepNumbers().size() == NSTEPS);
    for (int i = 0; i < NSTEPS; ++i) { CHECK(rst.hasReportStepNumber(seq[i])); CHECK(rst.seqnum[i] == seq[i]); }
    int keep = 0; while (keep < NSTEPS && seq[keep] < s) ++keep;                        // steps smaller than s survive
    const std::streamoff wp = rst.restartStepWritePosition(s);
    CHECK(wp == (keep == NSTEPS ? std::streamoff(-1) : std::streamoff(keep * STEP_BYTES)));   // header of the first step >= s, or append
    // --- the writer: reopen at step s and write it
    OutputStream::Restart* w = reinterpret_cast<OutputStream::Restart*>(rst_storage);
    w->openUnified(std::string(FNAME), false, s);
    w->stream_->write(std::string("SEQNUM"), std::vector<int>{ s });
    if (!SEQONLY) { w->write(std::string("INTEHEAD"), std::vector<int>{ 99, s, 7 }); w->write(std::string("PRESSURE"), std::vector<double>{ 4.5, 2.5 }); }
    w->stream_->flushStream();
    CHECK(verif_memfile_size(1) == (keep + 1) * STEP_BYTES);                            // surviving steps + the new one, nothing else
    for (long i = 0; i < keep * STEP_BYTES; ++i) CHECK(verif_memfile_byte(1, i) == before[i]);   // earlier steps byte for byte
    ERst again{ std::string(FNAME) };
    const auto steps = again.listOfReportStepNumbers();
    CHECK(steps.size() == (size_t) keep + 1);
    for (int i = 0; i < keep; ++i) CHECK(steps[i] == seq[i]);
    CHECK(steps[keep] == s);                                                           // the step just written is last; strictly increasing
    if (!SEQONLY) {
        const auto& ih = again.getRestartData<int>("INTEHEAD", s, 0); CHECK(ih.size() == 3 && ih[0] == 99 && ih[1] == s);
        if (keep > 0) { const auto& i0 = again.getRestartData<int>("INTEHEAD", seq[0], 0); CHECK(i0[0] == 10 && i0[1] == seq[0]); }
    }
}

// ---- a file cut short at ANY byte: every array either reads back exactly as written or an error is raised - never different data
#ifndef CUTLO
#define CUTLO 0
#define CUTHI 1000
#endif
extern "C" void h_truncated(void) {
    std::vector<int> a { nondet_int(), nondet_int(), nondet_int() }; std::vector<double> b(2); unsigned long bits[2] = { nondet_ulong(), nondet_ulong() }; std::memcpy(b.data(), bits, 16);
#ifdef VERIF_NATIVE
    verif_memfile_name(1, "CUT.UNRST"); EclOutput* out = new EclOutput("CUT.UNRST", false, std::ios::out);
#else
    EclOutput* out = reinterpret_cast<EclOutput*>(out_storage); out->isFormatted = false; out->ix_standard = false;
    verif_stream_bind(&out->ofileH, 1, 0); verif_memfile_name(1, "CUT.UNRST");
#endif
    out->write(std::string("SEQNUM"), std::vector<int>{ 1 }); out->write(std::string("IARR"), a); out->write(std::string("DARR"), b); out->flushStream();
    const long full = verif_memfile_size(1);                       // 36 + 36 + 40 = 112
    long cut = (long) verif_concretize(nondet_ulong(), full); ASSUME(cut >= CUTLO && cut <= CUTHI);
    verif_memfile_truncate(1, cut);
    try {
        EclFile f(std::string("CUT.UNRST"), EclFile::Formatted{ false }, false);
        if (f.hasKey("IARR")) { try { const auto& ra = f.get<int>("IARR"); CHECK(ra.size() == 3 && ra[0] == a[0] && ra[1] == a[1] && ra[2] == a[2]); } catch (const std::exception&) { } }
        if (f.hasKey("DARR")) { try { const auto& rb = f.get<double>("DARR"); CHECK(rb.size() == 2 && std::memcmp(rb.data(), bits, 16) == 0); } catch (const std::exception&) { } }
        if (cut == full) { CHECK(f.hasKey("IARR") && f.hasKey("DARR")); }
    } catch (const std::exception&) { CHECK(cut < full); }
}

// ---- the same inductive step on a FORMATTED unified restart file (two steps of SEQNUM + INTEHEAD; SEQNUM values one symbolic digit)
static const char* FNAME_F = "CASE.FUNRST";
static const long FSTEP_BYTES = (31 + 13) + (31 + 37);       // header line 30 characters + newline; 12 characters per integer + newline
extern "C" void h_rewind_formatted(void) {
    int seq[2]; seq[0] = nondet_int(); seq[1] = nondet_int(); ASSUME(seq[0] >= 0 && seq[0] <= 2 && seq[1] > seq[0] && seq[1] <= seq[0] + 3);
    int s = nondet_int(); ASSUME(s >= 0 && s <= seq[1] + 2);
#ifdef VERIF_NATIVE
    verif_memfile_name(1, FNAME_F); EclOutput* out = new EclOutput(FNAME_F, true, std::ios::out);
#else
    EclOutput* out = reinterpret_cast<EclOutput*>(out_storage); out->isFormatted = true; out->ix_standard = false;
    verif_stream_bind(&out->ofileH, 1, 0); verif_memfile_name(1, FNAME_F);
#endif
    for (int i = 0; i < 2; ++i) { out->write(std::string("SEQNUM"), std::vector<int>{ seq[i] }); out->write(std::string("INTEHEAD"), std::vector<int>{ 10 + i, seq[i], 7 }); }
    out->flushStream();
    CHECK(verif_memfile_size(1) == 2 * FSTEP_BYTES);
    std::vector<unsigned char> before(verif_memfile_size(1)); for (size_t i = 0; i < before.size(); ++i) before[i] = verif_memfile_byte(1, i);
    ERst rst{ std::string(FNAME_F) };
    CHECK(rst.listOfReportStepNumbers().size() == 2);
    int keep = 0; while (keep < 2 && seq[keep] < s) ++keep;
    OutputStream::Restart* w = reinterpret_cast<OutputStream::Restart*>(rst_storage);
    w->openUnified(std::string(FNAME_F), true, s);
    w->stream_->write(std::string("SEQNUM"), std::vector<int>{ s });
    w->write(std::string("INTEHEAD"), std::vector<int>{ 99, s, 7 });
    w->stream_->flushStream();
    CHECK(verif_memfile_size(1) == (keep + 1) * FSTEP_BYTES);                            // the file equals a fresh file of the surviving steps plus the new one: same length ...
    for (long i = 0; i < keep * FSTEP_BYTES; ++i) CHECK(verif_memfile_byte(1, i) == before[i]);
    CHECK(verif_memfile_byte(1, keep * FSTEP_BYTES) == ' ' && verif_memfile_byte(1, keep * FSTEP_BYTES + 1) == '\'');      // ... and the new step starts with its header line
    ERst again{ std::string(FNAME_F) };
    const auto steps = again.listOfReportStepNumbers();
    CHECK(steps.size() == (size_t) keep + 1);
    for (int i = 0; i < keep; ++i) CHECK(steps[i] == seq[i]);
    CHECK(steps[keep] == s);
}
