// C19 (further keyword shapes): data items (one item, several values) with defaulted entries anywhere incl. at the end; a TITLE keyword
// written after a record that ends with defaults; TITLE words that need their quotes; the empty records that separate the blocks of a
// double-record keyword; numbers of UDA items (precision).
#include <string>
#include <vector>
#include <sstream>
#include <cmath>
#include <verif.h>
#include <opm/input/eclipse/Parser/ParserRecord.hpp>
#include <opm/input/eclipse/Parser/ParserItem.hpp>
#include <opm/input/eclipse/Parser/ParseContext.hpp>
#include <opm/input/eclipse/Parser/ErrorGuard.hpp>
#include <opm/input/eclipse/Deck/DeckKeyword.hpp>
#include <opm/input/eclipse/Deck/DeckRecord.hpp>
#include <opm/input/eclipse/Deck/DeckItem.hpp>
#include <opm/input/eclipse/Deck/DeckOutput.hpp>
#include <opm/input/eclipse/Deck/UDAValue.hpp>
#include <opm/input/eclipse/Units/UnitSystem.hpp>
#include <opm/input/eclipse/Units/Dimension.hpp>
#include <opm/common/OpmLog/KeywordLocation.hpp>
#include "/repo/opm/input/eclipse/Parser/raw/RawRecord.hpp"
using namespace Opm;
#ifndef NV
#define NV 4
#endif
static std::vector<std::string> tokens_of(const std::string& body) {
    RawRecord raw(std::string_view(body), KeywordLocation{}); std::vector<std::string> t;
    while (raw.size() > 0) { auto v = raw.pop_front(); t.emplace_back(v.begin(), v.end()); }
    return t;
}
// ---- (A) a data item: NV values, any of them defaulted
extern "C" void h_data_item(void) {
    ParserRecord pr; { ParserItem it("DATA", ParserItem::itype::INT); it.setSizeType(ParserItem::item_size::ALL); pr.addItem(it); }
    ParseContext ctx; ErrorGuard guard; UnitSystem us1(UnitSystem::UnitType::UNIT_TYPE_METRIC), us2(UnitSystem::UnitType::UNIT_TYPE_METRIC);
    bool dflt[NV]; int val[NV];
    DeckItem item("DATA", int());
    for (int i = 0; i < NV; ++i) {
        dflt[i] = nondet_bool(); val[i] = (i == 1) ? nondet_int() : 20 + i; if (i == 1) ASSUME(val[i] >= 0 && val[i] < 100);
        if (dflt[i]) item.push_backDummyDefault<int>(); else item.push_back(val[i]);
    }
#ifdef KF_TRAILING_DATA_DEFAULTS
    ASSUME(!dflt[NV - 1]);              // known finding (known_findings.txt): defaulted entries at the END of a data array are not written; everything else is still decided
#endif
    DeckRecord rec; rec.addItem(item);
    std::ostringstream os; { DeckOutput out(os); rec.write(out); }
    std::string text = os.str(); size_t slash = text.rfind('/'); CHECK(slash != std::string::npos);
    std::string body = text.substr(0, slash);
    RawRecord raw(std::string_view(body), KeywordLocation{});
    DeckRecord back = pr.parse(ctx, guard, raw, us1, us2, KeywordLocation{});
    const DeckItem& b = back.getItem(0);
    CHECK(b.data_size() == NV);                               // the array keeps its length: defaulted entries at the end are written too
    for (int i = 0; i < NV && (std::size_t) i < b.data_size(); ++i) { CHECK(b.defaultApplied(i) == dflt[i]); if (!dflt[i]) CHECK(b.get<int>(i) == val[i]); }
}
// ---- (B) TITLE after a record with trailing defaults; title words with blank / slash / star need their quotes
extern "C" void h_title(void) {
    DeckKeyword first(KeywordLocation{}, "TABDIMS");
    { std::vector<DeckItem> items; for (int i = 0; i < 3; ++i) { DeckItem it(i == 0 ? "A" : i == 1 ? "B" : "C", int()); if (i == 0 || nondet_bool()) it.push_back(3 + i); else it.push_backDefault(7); items.push_back(it); }
      first.addRecord(DeckRecord(std::move(items))); }
    DeckKeyword title(KeywordLocation{}, "TITLE");
    std::string w[2];
    for (int k = 0; k < 2; ++k) { char c1 = nondet_char(), c2 = nondet_char(); ASSUME(c1 >= 'A' && c1 <= 'Z' && ((c2 >= 'a' && c2 <= 'z') || c2 == ' ' || c2 == '/' || c2 == '*')); w[k] = std::string(1, c1) + std::string(1, c2) + "x"; }
    { DeckItem it("TitleText", std::string()); it.push_back(w[0]); it.push_back(w[1]); DeckRecord r; r.addItem(it); title.addRecord(std::move(r)); }
    std::ostringstream os; { DeckOutput out(os); first.write(out); title.write(out); }
    std::string text = os.str();
    size_t p = text.find("TITLE\n"); CHECK(p != std::string::npos);
    std::string line = text.substr(p + 6); size_t nl = line.find('\n'); CHECK(nl != std::string::npos); line = line.substr(0, nl);
    std::vector<std::string> t = tokens_of(line);
    CHECK(t.size() == 2);
    if (t.size() == 2) { CHECK(t[0] == "'" + w[0] + "'" || t[0] == w[0]); CHECK(t[1] == "'" + w[1] + "'" || t[1] == w[1]); }
}
// ---- (C) double-record keyword: every block is closed by a record of its own (an empty record), which must be written
extern "C" void h_double_record(void) {
    DeckKeyword kw(KeywordLocation{}, "GECONT");
    int nblocks = 2, nslash_expected = 0;
    for (int b = 0; b < nblocks; ++b) {
        int nrec = nondet_bool() ? 1 : 2;
        for (int r = 0; r < nrec; ++r) { DeckItem it("V", int()); it.push_back(10 * b + r); DeckRecord rec; rec.addItem(it); kw.addRecord(std::move(rec)); ++nslash_expected; }
        kw.addRecord(DeckRecord{}); ++nslash_expected;          // block terminator
    }
    std::ostringstream os; { DeckOutput out(os); kw.write(out); }
    std::string text = os.str(); int nslash = 0; for (char c : text) if (c == '/') ++nslash;
    CHECK(nslash == nslash_expected + (kw.isDoubleRecordKeyword() ? 0 : 0) || nslash == nslash_expected + 1);       // (+1: a keyword-level terminator)
    CHECK(nslash >= nslash_expected);
}
// ---- (D) numbers held by UDA items are written with the deck precision (10 significant digits)
extern "C" void h_uda_number(void) {
    static const double cand[5] = { 12345.6789, 0.000123456789, 98765432.1, 5.0, 1234567.891 };
    const double v = cand[verif_concretize(nondet_ulong(), 4)];
    DeckItem it("RATE", UDAValue(), { Dimension(1.0) }, { Dimension(1.0) }); it.push_back(UDAValue(v));
    DeckRecord rec; rec.addItem(it);
    std::ostringstream os; { DeckOutput out(os); rec.write(out); }
    std::string text = os.str(); size_t slash = text.rfind('/'); CHECK(slash != std::string::npos);
    std::vector<std::string> t = tokens_of(text.substr(0, slash));
    CHECK(t.size() == 1);
    if (t.size() == 1) { const double back = std::strtod(t[0].c_str(), nullptr); CHECK(std::fabs(back - v) <= 1e-9 * std::fabs(v)); }
}
