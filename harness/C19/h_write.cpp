// C19: a DeckRecord written as text (DeckRecord::write -> DeckItem::write_vector -> DeckOutput::write/stash_default/write_sep/end_record)
// and scanned back (RawRecord tokeniser -> ParserRecord::parse -> ParserItem::scan/scan_item/StarToken) is the same record:
// same values, same defaulted pattern (runs collapsed to n*, trailing defaults dropped); writing the re-read record reproduces the text.
#include <string>
#include <vector>
#include <sstream>
#include <verif.h>
#include <opm/input/eclipse/Parser/ParserRecord.hpp>
#include <opm/input/eclipse/Parser/ParserItem.hpp>
#include <opm/input/eclipse/Parser/ParseContext.hpp>
#include <opm/input/eclipse/Parser/ErrorGuard.hpp>
#include <opm/input/eclipse/Deck/DeckRecord.hpp>
#include <opm/input/eclipse/Deck/DeckItem.hpp>
#include <opm/input/eclipse/Deck/DeckOutput.hpp>
#include <opm/input/eclipse/Units/UnitSystem.hpp>
#include <opm/common/OpmLog/KeywordLocation.hpp>
#include "/repo/opm/input/eclipse/Parser/raw/RawRecord.hpp"
using namespace Opm;
#ifndef NITEMS
#define NITEMS 4
#endif
#ifndef STRITEMS
#define STRITEMS 0
#endif
static const char* NAMES[6] = { "A", "B", "C", "D", "E", "F" };
static ParserRecord mkparser() {
    ParserRecord r;
    for (int i = 0; i < NITEMS; ++i) {
#if STRITEMS
        ParserItem it(NAMES[i], ParserItem::itype::STRING); it.setDefault(std::string(1, char('p' + i)));
#else
        ParserItem it(NAMES[i], ParserItem::itype::INT); it.setDefault(11 * (i + 1));
#endif
        r.addItem(it);
    }
    return r;
}
static std::string towrite(const DeckRecord& rec) { std::ostringstream os; { DeckOutput out(os); rec.write(out); } return os.str(); }
extern "C" void h_roundtrip(void) {
    // everything that does not depend on the symbolic inputs is built first (executed once, before the paths fork)
    ParserRecord pr = mkparser(); ParseContext ctx; ErrorGuard guard; UnitSystem us1(UnitSystem::UnitType::UNIT_TYPE_METRIC), us2(UnitSystem::UnitType::UNIT_TYPE_METRIC);
    bool dflt[NITEMS];
#if STRITEMS
    std::string val[NITEMS];
#else
    int val[NITEMS];
#endif
    std::vector<DeckItem> items;
    for (int i = 0; i < NITEMS; ++i) {
        dflt[i] = nondet_bool();
#if STRITEMS
        DeckItem it(NAMES[i], std::string());
        char c1 = nondet_char(), c2 = nondet_char(); ASSUME(c1 >= 'A' && c1 <= 'Z' && ((c2 >= 'A' && c2 <= 'Z') || c2 == ' ' || c2 == '/' || c2 == '*'));     // embedded blank, slash or star inside the quotes
        char c3 = 'X';
        if (i == 0 || i == NITEMS - 1) { c3 = nondet_char(); ASSUME((c3 >= 'A' && c3 <= 'Z') || c3 == ' '); }                    // first and last item: the value may END in a blank (blank-padded names)
        val[i] = std::string(1, c1) + std::string(1, c2) + std::string(1, c3);
        if (dflt[i]) it.push_backDefault(std::string(1, char('p' + i))); else it.push_back(val[i]);
#else
        DeckItem it(NAMES[i], int());
        if (i == 0 || i == 2) { val[i] = nondet_int(); ASSUME(val[i] > -100 && val[i] < 1000); } else val[i] = (i == 1) ? 7 : -45 * i;     // two items carry symbolic values (all sign/digit-count shapes), the others fixed ones
        if (dflt[i]) it.push_backDefault(11 * (i + 1)); else it.push_back(val[i]);
#endif
        items.push_back(it);
    }
    DeckRecord rec(std::move(items));
    std::string text = towrite(rec);
    size_t slash = text.rfind('/'); CHECK(slash != std::string::npos && slash > 0);
    CHECK(text.substr(slash) == "/\n");
    std::string body = text.substr(0, slash);
    RawRecord raw(std::string_view(body), KeywordLocation{});
    DeckRecord back = pr.parse(ctx, guard, raw, us1, us2, KeywordLocation{});
    CHECK(back.size() == NITEMS);
    for (int i = 0; i < NITEMS; ++i) {
        const DeckItem& it = back.getItem(i);
        CHECK(it.data_size() == 1); CHECK(it.defaultApplied(0) == dflt[i]);
#if STRITEMS
        CHECK(it.get<std::string>(0) == (dflt[i] ? std::string(1, char('p' + i)) : val[i]));
#else
        CHECK(it.get<int>(0) == (dflt[i] ? 11 * (i + 1) : val[i]));
#endif
    }
    CHECK(towrite(back) == text);                      // print(parse(print(r))) is a fix-point
}
