// C19 (whole deck): parse(print(d)) == d and print(parse(print(d))) == print(d) with the real Parser::parseString, Deck::write (operator<<),
// DeckKeyword::write, DeckRecord::write, DeckItem::write, DeckOutput.  d is the deck the parser builds from
//    <KEYWORD>\n<body> /\nGRIDUNIT\n METRES MAP /\nEQLDIMS\n 2* 7 /\n            (three keywords, so that Deck::write also writes its keyword separator)
// where <body> is every string of <= HN 7-bit bytes without quote, slash and dash (numbers, names, n*v, n*, blanks, line breaks).
#include "/repo/opm/input/eclipse/Parser/Parser.cpp"
#include <opm/input/eclipse/Parser/ParserKeywords/E.hpp>
#include <opm/input/eclipse/Parser/ParserKeywords/G.hpp>
#include <opm/input/eclipse/Parser/ParserKeywords/T.hpp>
#include <opm/input/eclipse/Parser/ParserKeywords/U.hpp>
#include <opm/input/eclipse/Parser/InputErrorAction.hpp>
#include <sstream>
#include <verif.h>
#ifndef HN
#define HN 2
#endif
#ifndef KWSEL
#define KWSEL 0
#endif
#if KWSEL == 0
#define NAME_A "EQLDIMS"
#else
#define NAME_A "GRIDUNIT"
#endif
struct Outcome { bool threw = false; Opm::Deck deck; };
static Outcome parse(const Opm::Parser& parser, const std::string& text) {
    Outcome o; Opm::ParseContext ctx; Opm::ErrorGuard errors; ctx.update(Opm::InputErrorAction::THROW_EXCEPTION);
    try { o.deck = parser.parseString(text, ctx, errors); } catch (const std::exception&) { o.threw = true; }
    errors.clear();
    return o;
}
static void same(const Opm::Deck& a, const Opm::Deck& b) {
    CHECK(a.size() == b.size());
    for (std::size_t k = 0; k < a.size() && k < b.size(); ++k) {
        const auto& ka = a[k]; const auto& kb = b[k];
        CHECK(ka.name() == kb.name()); CHECK(ka.size() == kb.size());
        for (std::size_t r = 0; r < ka.size() && r < kb.size(); ++r) {
            const auto& ra = ka.getRecord(r); const auto& rb = kb.getRecord(r);
            CHECK(ra.size() == rb.size());
            for (std::size_t i = 0; i < ra.size() && i < rb.size(); ++i) {
                const auto& ia = ra.getItem(i); const auto& ib = rb.getItem(i);
                CHECK(ia.name() == ib.name()); CHECK(ia.getType() == ib.getType()); CHECK(ia.data_size() == ib.data_size());
                for (std::size_t j = 0; j < ia.data_size() && j < ib.data_size(); ++j) {
                    CHECK(ia.defaultApplied(j) == ib.defaultApplied(j)); CHECK(ia.hasValue(j) == ib.hasValue(j));
                    if (!ia.hasValue(j) || !ib.hasValue(j)) continue;
                    if (ia.getType() == Opm::type_tag::integer) CHECK(ia.get<int>(j) == ib.get<int>(j));
#ifdef UDQJOB                /* only the TSTEP/UDQ deck holds floating point and raw-string items (the vacuity check counts assertion sites per job) */
                    else if (ia.getType() == Opm::type_tag::fdouble) CHECK(EQ(ia.get<double>(j), ib.get<double>(j)));
                    else if (ia.getType() == Opm::type_tag::raw_string) CHECK(static_cast<const std::string&>(ia.get<Opm::RawString>(j)) == static_cast<const std::string&>(ib.get<Opm::RawString>(j)));
#endif
                    else CHECK(ia.get<std::string>(j) == ib.get<std::string>(j));
                }
            }
        }
    }
}
extern "C" void h_deck_roundtrip(void) {
    unsigned long n = nondet_ulong(); ASSUME(n <= HN); n = verif_concretize(n, HN);
    std::string body;
    for (unsigned long i = 0; i < n; ++i) {
        unsigned char c = nondet_uchar();
        ASSUME(c < 128 && c != '\'' && c != '"' && c != '/' && c != '-' && c != 0);
        body.push_back((char) c);
    }
    const std::string A = std::string(NAME_A "\n") + body + " /\nGRIDUNIT\n METRES MAP /\nEQLDIMS\n 2* 7 /\n";
    Opm::Parser parser(false);
    parser.addKeyword<Opm::ParserKeywords::EQLDIMS>(); parser.addKeyword<Opm::ParserKeywords::GRIDUNIT>();
    Outcome a = parse(parser, A);
    if (a.threw) return;                                             // not a deck: nothing to write
    CHECK(a.deck.size() == 3);
    std::ostringstream os; os << a.deck; const std::string t1 = os.str();
    Outcome b = parse(parser, t1);
    CHECK(!b.threw);
    if (b.threw) return;
    same(a.deck, b.deck);
    std::ostringstream os2; os2 << b.deck;
    CHECK(os2.str() == t1);                                          // printing is a fixpoint
}

// list (slash-terminated) keyword with 0..2 records in front of two more keywords: the terminating slash must be written also for an EMPTY list,
// otherwise the following keyword is read as its records.  Record k is  'G<k>' <parent> /  with a symbolic parent name (or a defaulted one).
extern "C" void h_deck_list(void) {
    unsigned long nrec = nondet_ulong(); ASSUME(nrec <= 2); nrec = verif_concretize(nrec, 2);
    std::string A = "GRUPTREE\n";
    for (unsigned long k = 0; k < nrec; ++k) {
        unsigned char c = nondet_uchar(); ASSUME((c >= 'A' && c <= 'Z') || c == '*');          // '*' alone: defaulted parent ("1*" spelt "*")
        A += std::string(" 'G") + char('1' + k) + "' "; A.push_back((char) c); A += " /\n";
    }
    A += "/\nGRIDUNIT\n METRES MAP /\nEQLDIMS\n 2* 7 /\n";
    Opm::Parser parser(false);
    parser.addKeyword<Opm::ParserKeywords::EQLDIMS>(); parser.addKeyword<Opm::ParserKeywords::GRIDUNIT>(); parser.addKeyword<Opm::ParserKeywords::GRUPTREE>();
    Outcome a = parse(parser, A);
    CHECK(!a.threw); if (a.threw) return;
    CHECK(a.deck.size() == 3); CHECK(a.deck[0].size() == nrec);
    std::ostringstream os; os << a.deck; const std::string t1 = os.str();
    Outcome b = parse(parser, t1);
    CHECK(!b.threw); if (b.threw) return;
    same(a.deck, b.deck);
    std::ostringstream os2; os2 << b.deck;
    CHECK(os2.str() == t1);
}

// raw-string keyword behind a data-like keyword: TSTEP (written with line splitting switched on) followed by a UDQ DEFINE whose expression has
// five symbolic operators out of + - * / (a division slash inside the expression must not end up as the last slash of a physical line:
// the reader takes the last slash of each line of a UDQ record as the record terminator).
extern "C" void h_deck_udq(void) {
    std::string A = "TSTEP\n 1 2 /\nUDQ\nDEFINE FUX ( WOPR P1";
    static const char* operands[5] = { "WOPR P2", "100", "FU_LIM", "WWPR P3", "7" };
    for (int k = 0; k < 5; ++k) {
        unsigned char op = nondet_uchar(); ASSUME(op == '+' || op == '-' || op == '*' || op == '/');
        A += " "; A.push_back((char) op); A += " "; A += operands[k];
        if (k == 0) A += " )";
    }
    A += " /\n/\nEQLDIMS\n 2* 7 /\n";
    Opm::Parser parser(false);
    parser.addKeyword<Opm::ParserKeywords::EQLDIMS>(); parser.addKeyword<Opm::ParserKeywords::TSTEP>(); parser.addKeyword<Opm::ParserKeywords::UDQ>();
    Outcome a = parse(parser, A);
    CHECK(!a.threw); if (a.threw) return;
    CHECK(a.deck.size() == 3); CHECK(a.deck[1].size() == 1);
    std::ostringstream os; os << a.deck; const std::string t1 = os.str();
    Outcome b = parse(parser, t1);
    CHECK(!b.threw); if (b.threw) return;
    same(a.deck, b.deck);
    std::ostringstream os2; os2 << b.deck;
    CHECK(os2.str() == t1);
}
