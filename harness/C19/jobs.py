EXPLANATION = ('C19: a DeckRecord with symbolic values and a symbolic defaulted pattern is written with the real DeckRecord::write / DeckItem::write_vector / DeckOutput code to an in-memory stream, '
  'tokenised and scanned back with the real RawRecord / ParserRecord::parse / ParserItem::scan path, and compared item by item (values, defaulted flags); writing the re-read record must reproduce the text.')
BOUNDS = 'records of 4 single-valued items (thorough: 5), every defaulted/explicit pattern, int values in (-1000, 1000), strings of 3 characters with an embedded blank, slash or star'
OUTSIDE = 'doubles (precision-10 printing, strtod), TITLE/code/table-collection/data-array keyword shapes and line splitting (need ParserKeyword from the generated tables), FileDeck'
ASSUMPTIONS = ['std::ostringstream replaced by the memfile stream model; operator<<(int) prints decimal digits (symbolic values: one path per sign/digit count)']
TUS = ['opm/input/eclipse/Parser/ParserRecord.cpp', 'opm/input/eclipse/Parser/ParserItem.cpp', 'opm/input/eclipse/Parser/raw/RawRecord.cpp', 'opm/input/eclipse/Parser/raw/StarToken.cpp',
       'opm/input/eclipse/Parser/ParseContext.cpp', 'opm/input/eclipse/Parser/ErrorGuard.cpp', 'opm/input/eclipse/Deck/DeckRecord.cpp', 'opm/input/eclipse/Deck/DeckItem.cpp', 'opm/input/eclipse/Deck/UDAValue.cpp',
       'opm/input/eclipse/Deck/DeckOutput.cpp', 'opm/input/eclipse/Units/UnitSystem.cpp', 'opm/input/eclipse/Units/Dimension.cpp', 'opm/common/utility/String.cpp', 'opm/common/OpmLog/KeywordLocation.cpp',
       'opm/input/eclipse/Parser/ParserEnums.cpp']
def jobs(tier):
    n = 4 if tier == 'quick' else 5
    return [dict(name='record_int', src='h_write.cpp', defs={'NITEMS': n, 'STRITEMS': 0}, entry='h_roundtrip', tus=TUS, fp='real', loopmax=4000, maxsteps=200000000, bounds='%d int items' % n),
            dict(name='record_str', src='h_write.cpp', defs={'NITEMS': n, 'STRITEMS': 1}, entry='h_roundtrip', tus=TUS, fp='real', loopmax=4000, maxsteps=200000000, bounds='%d string items' % n)]
