EXPLANATION = ('C19 (also: data items with defaulted entries, TITLE after a record with trailing defaults and with words that need quotes, block terminators of double-record keywords, UDA numbers): a DeckRecord with symbolic values and a symbolic defaulted pattern is written with the real DeckRecord::write / DeckItem::write_vector / DeckOutput code to an in-memory stream, '
  'tokenised and scanned back with the real RawRecord / ParserRecord::parse / ParserItem::scan path, and compared item by item (values, defaulted flags); writing the re-read record must reproduce the text; at deck level a three-keyword deck built by Parser::parseString is printed with operator<<(Deck), re-parsed and compared item by item, and printing is a fixpoint.')
BOUNDS = 'deck level: first record body of <= 2 (thorough 3) symbolic 7-bit bytes, list keyword with 0-2 records; records of 4 single-valued items (thorough: 5), every defaulted/explicit pattern, int values in (-1000, 1000), strings of 3 characters with an embedded blank, slash or star'
OUTSIDE = 'symbolic doubles (formatting of a symbolic double is out of reach; five concrete numbers are checked for the 10-digit precision), table-collection keywords and line splitting of long data arrays (need ParserKeyword from the generated tables), FileDeck'
ASSUMPTIONS = ['std::ostringstream replaced by the memfile stream model; operator<<(int) prints decimal digits (symbolic values: one path per sign/digit count)']
TUS = ['opm/input/eclipse/Parser/ParserRecord.cpp', 'opm/input/eclipse/Parser/ParserItem.cpp', 'opm/input/eclipse/Parser/raw/RawRecord.cpp', 'opm/input/eclipse/Parser/raw/StarToken.cpp',
       'opm/input/eclipse/Parser/ParseContext.cpp', 'opm/input/eclipse/Parser/ErrorGuard.cpp', 'opm/input/eclipse/Deck/DeckRecord.cpp', 'opm/input/eclipse/Deck/DeckItem.cpp', 'opm/input/eclipse/Deck/UDAValue.cpp',
       'opm/input/eclipse/Deck/DeckOutput.cpp', 'opm/input/eclipse/Units/UnitSystem.cpp', 'opm/input/eclipse/Units/Dimension.cpp', 'opm/common/utility/String.cpp', 'opm/common/OpmLog/KeywordLocation.cpp',
       'opm/input/eclipse/Parser/ParserEnums.cpp']
def jobs(tier):
    n = 4 if tier == 'quick' else 5
    out = [dict(name='record_int', src='h_write.cpp', defs={'NITEMS': n, 'STRITEMS': 0}, entry='h_roundtrip', tus=TUS, fp='real', loopmax=4000, maxsteps=200000000, bounds='%d int items' % n),
            dict(name='record_str', src='h_write.cpp', defs={'NITEMS': n, 'STRITEMS': 1}, entry='h_roundtrip', tus=TUS, fp='real', loopmax=4000, maxsteps=200000000, bounds='%d string items' % n),
            dict(name='data_item', src='h_write2.cpp', defs={'NV': n}, entry='h_data_item', tus=TUS, fp='real', loopmax=4000, maxsteps=200000000, bounds='one int item with %d values, every defaulted pattern' % n),
            dict(name='title_after_defaults', src='h_write2.cpp', defs={}, entry='h_title', tus=TUS + ['opm/input/eclipse/Deck/DeckKeyword.cpp'], fp='real', loopmax=4000, maxsteps=200000000, bounds='a 3-item record with any trailing defaults, then TITLE with two words of 3 characters incl. blank, slash or star'),
            dict(name='double_record', src='h_write2.cpp', defs={}, entry='h_double_record', tus=TUS + ['opm/input/eclipse/Deck/DeckKeyword.cpp'], fp='real', loopmax=4000, maxsteps=200000000, bounds='two blocks of 1-2 records'),
            dict(name='uda_number', src='h_write2.cpp', defs={}, entry='h_uda_number', tus=TUS, fp='real', loopmax=4000, maxsteps=200000000, bounds='five concrete numbers with up to 10 significant digits (formatting of a symbolic double is out of reach)')]
    PT = ['opm/input/eclipse/Parser/%s.cpp' % n for n in ('raw/RawKeyword', 'raw/RawRecord', 'raw/StarToken', 'ParseContext', 'ErrorGuard', 'InputErrorAction', 'ParserKeyword', 'ParserRecord', 'ParserItem', 'ParserEnums')] + [
          'opm/input/eclipse/Deck/%s.cpp' % n for n in ('Deck', 'DeckKeyword', 'DeckRecord', 'DeckItem', 'DeckView', 'DeckTree', 'DeckValue', 'DeckOutput', 'DeckSection', 'UDAValue', 'FileDeck', 'ImportContainer')] + [
          'opm/input/eclipse/Units/%s.cpp' % n for n in ('UnitSystem', 'Dimension')] + [
          'opm/common/%s.cpp' % n for n in ('OpmLog/OpmLog', 'OpmLog/Logger', 'OpmLog/LogUtil', 'OpmLog/KeywordLocation', 'utility/OpmInputError', 'utility/String', 'utility/shmatch')] + [
          'opm/input/eclipse/Python/Python.cpp', 'opm/input/eclipse/Python/PythonInterp.cpp', '_build/ParserKeywords/E.cpp', '_build/ParserKeywords/G.cpp']
    hn = 2 if tier == 'quick' else 3
    for kw, kn in ((0, 'eqldims'), (1, 'gridunit')):
        out.append(dict(name='deck_roundtrip_' + kn, src='h_deckrt.cpp', defs={'HN': hn, 'KWSEL': kw}, entry='h_deck_roundtrip', tus=PT, fp='real', loopmax=4000, maxsteps=200000000, timeout=900 if tier == 'quick' else 7200, opts=['--ctors'],
                        bounds='deck of three keywords parsed from text whose first record body is every string of <= %d 7-bit bytes (no quote, slash, dash); print, re-parse, print' % hn))
    out.append(dict(name='deck_roundtrip_list', src='h_deckrt.cpp', defs={'HN': hn, 'KWSEL': 0}, entry='h_deck_list', tus=PT, fp='real', loopmax=4000, maxsteps=200000000, timeout=900 if tier == 'quick' else 7200, opts=['--ctors'],
                    bounds='deck of a list keyword (GRUPTREE) with 0, 1 or 2 records (symbolic or defaulted parent name) followed by two keywords; print, re-parse, print'))
    out.append(dict(name='deck_roundtrip_udq', src='h_deckrt.cpp', defs={'HN': hn, 'KWSEL': 0, 'UDQJOB': 1}, entry='h_deck_udq', tus=PT + ['_build/ParserKeywords/T.cpp', '_build/ParserKeywords/U.cpp'], fp='real', loopmax=4000, maxsteps=200000000,
                    timeout=900 if tier == 'quick' else 7200, opts=['--ctors'], bounds='deck TSTEP + UDQ DEFINE with five symbolic operators out of + - * / + EQLDIMS; print, re-parse, print'))
    return out
