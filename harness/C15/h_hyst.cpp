// C15 (hysteresis, Carlson relperm model): EclHysteresisTwoPhaseLawParams::update / updateDynamicParams_ and
// EclHysteresisTwoPhaseLaw::twoPhaseSatKrn on drainage / imbibition tables with symbolic columns:
//  - the turning-point saturation krnSwMdc is the running minimum of the wetting saturations seen;
//  - on the drainage side (Sw <= krnSwMdc) the non-wetting relperm is the drainage curve;
//  - the scanning curve is continuous at the turning point (equals the drainage value there) and is the imbibition curve shifted by deltaSw;
//  - with identical drainage and imbibition curves hysteresis changes nothing;
//  - with hysteresis disabled the drainage curve is used whatever was seen.
#include <vector>
#include <memory>
#include <algorithm>
#include <verif.h>
#include <opm/material/fluidmatrixinteractions/MaterialTraits.hpp>
#include <opm/material/fluidmatrixinteractions/PiecewiseLinearTwoPhaseMaterial.hpp>
#include <opm/material/fluidmatrixinteractions/PiecewiseLinearTwoPhaseMaterialParams.hpp>
#include <opm/material/fluidmatrixinteractions/EclHysteresisConfig.hpp>
#include <opm/material/fluidmatrixinteractions/EclHysteresisTwoPhaseLaw.hpp>
#include <opm/material/fluidmatrixinteractions/EclHysteresisTwoPhaseLawParams.hpp>
#include <opm/material/fluidmatrixinteractions/EclEpsScalingPoints.hpp>
#define CEQ(a, b) CHECK(EQ((a), (b)))
typedef Opm::TwoPhaseMaterialTraits<double, 0, 1> Traits;
typedef Opm::PiecewiseLinearTwoPhaseMaterial<Traits> Eff;
typedef Eff::Params EffParams;
typedef Opm::EclHysteresisTwoPhaseLaw<Eff> Hyst;
typedef Hyst::Params HystParams;
#ifndef SAMECURVES
#define SAMECURVES 0
#endif
static const int NT = 3;
static const double SW[NT] = { 0.125, 0.5, 0.875 };        // saturation nodes at fixed positions (keeps the inverse maps linear in the symbolic columns)
#ifndef KRMODEL
#define KRMODEL 0          /* EHYSTR item 2: 0 = Carlson for the non-wetting phase, drainage curve for the wetting phase; 1 = Carlson + imbibition curve for the wetting phase */
#endif
struct Curve { std::vector<double> sw, krw, krn, pc; };
// concrete monotone tables (symbolic columns make the inverse map, hence the shift, non-linear in several unknowns at once: z3 gives up);
// the saturation history and the query point are the symbolic part
static Curve mkcurve(int which) {
    static const double KRW[2][NT] = { { 0.0, 0.25, 0.75 }, { 0.0, 0.125, 0.5 } }, KRN[2][NT] = { { 0.875, 0.375, 0.0 }, { 0.875, 0.125, 0.0 } }, PC[2][NT] = { { 3.0, 1.0, 0.0 }, { 2.0, 0.5, 0.0 } };
    Curve t; t.sw.assign(SW, SW + NT); t.krw.assign(KRW[which], KRW[which] + NT); t.krn.assign(KRN[which], KRN[which] + NT); t.pc.assign(PC[which], PC[which] + NT);
    return t;
}
static EffParams mkeff(const Curve& t) { EffParams p; p.setKrwSamples(t.sw, t.krw); p.setKrnSamples(t.sw, t.krn); p.setPcnwSamples(t.sw, t.pc); p.finalize(); return p; }
static HystParams mkhyst(const Curve& d, const Curve& im, bool enable) {
    auto cfg = std::make_shared<Opm::EclHysteresisConfig>(); cfg->setEnableHysteresis(enable); cfg->setKrHysteresisModel(KRMODEL); cfg->setPcHysteresisModel(-1);
    Opm::EclEpsScalingPointsInfo<double> info{};
    HystParams hp; hp.setConfig(cfg);
    hp.setDrainageParams(mkeff(d), info, Opm::EclTwoPhaseSystemType::OilWater);
    hp.setImbibitionParams(mkeff(im), info, Opm::EclTwoPhaseSystemType::OilWater);
    hp.finalize();
    return hp;
}
extern "C" void h_carlson(void) {
    Curve d = mkcurve(0), im = SAMECURVES ? d : mkcurve(1);
    HystParams hp = mkhyst(d, im, true);
    EffParams dp = mkeff(d), ip = mkeff(im);
    // two saturations seen in sequence
    double s1 = verif_nondet_real(), s2 = verif_nondet_real(); ASSUME(s1 > SW[0] && s1 < SW[NT - 1] && s2 > SW[0] && s2 < SW[NT - 1]);
    hp.update(s1, s1, s1); hp.update(s2, s2, s2);
    const double mdc = s1 < s2 ? s1 : s2;
    CEQ(hp.krnSwMdc(), mdc);                                                               // turning point = smallest wetting saturation seen
    // query anywhere
    double q = verif_nondet_real(); ASSUME(q >= SW[0] && q <= SW[NT - 1]);
    const double k = Hyst::twoPhaseSatKrn(hp, q), kd = Eff::twoPhaseSatKrn(dp, q);
    if (q <= mdc) CEQ(k, kd);                                                              // still on the drainage curve
    if (SAMECURVES) CEQ(k, kd);                                                            // identical curves: no hysteresis effect at all
    // scanning curve: imbibition curve shifted so that it meets the drainage curve at the turning point
    const double kd_mdc = Eff::twoPhaseSatKrn(dp, mdc);
    CEQ(Hyst::twoPhaseSatKrn(hp, mdc), kd_mdc);
    if (q > mdc) {
        CEQ(k, Eff::twoPhaseSatKrn(ip, q + hp.deltaSwImbKrn()));
        CHECK(k <= kd_mdc + 1e-12);                                                        // imbibing lowers the non-wetting relperm from its value at the turning point
    }
    // the shift makes the imbibition curve pass through the turning point value
    CEQ(Eff::twoPhaseSatKrn(ip, mdc + hp.deltaSwImbKrn()), kd_mdc);
    // wetting-phase relperm is not subject to Carlson hysteresis: drainage curve (model 0) or imbibition curve (model 1)
    CEQ(Hyst::twoPhaseSatKrw(hp, q), Eff::twoPhaseSatKrw(KRMODEL == 0 ? dp : ip, q));
}
extern "C" void h_disabled(void) {
    Curve d = mkcurve(0), im = mkcurve(1);
    HystParams hp = mkhyst(d, im, false);
    EffParams dp = mkeff(d);
    double s1 = verif_nondet_real(); ASSUME(s1 > SW[0] && s1 < SW[NT - 1]);
    hp.update(s1, s1, s1);
    double q = verif_nondet_real(); ASSUME(q >= SW[0] && q <= SW[NT - 1]);
    CEQ(Hyst::twoPhaseSatKrn(hp, q), Eff::twoPhaseSatKrn(dp, q)); CEQ(Hyst::twoPhaseSatKrw(hp, q), Eff::twoPhaseSatKrw(dp, q)); CEQ(Hyst::twoPhaseSatPcnw(hp, q), Eff::twoPhaseSatPcnw(dp, q));
}
