EXPLANATION = ('C15: PiecewiseLinearTwoPhaseMaterial (krw/krn/pc evaluation) and EclEpsTwoPhaseLaw (two- and three-point saturation scaling, vertical relperm scaling, inverse maps) '
  'with symbolic monotone tables, symbolic scaled/unscaled end-points and symbolic saturation.')
BOUNDS = 'tables with 3 and 4 nodes; end-point triples strictly ordered in [0,1]; two- and three-point variants (harness split); every saturation in [0,1]'
OUTSIDE = 'EclMaterialLawManager::initFromState / readEffectiveParameters (family I vs II from table classes), SatfuncPropertyInitializers, three-phase combination (Stone/default), Killough / WAG hysteresis and capillary-pressure hysteresis (the Carlson relperm model is covered), IEEE rounding'
ASSUMPTIONS = ['doubles as reals', 'tables physically ordered (Sw increasing, krw non-decreasing from 0, krn non-increasing to 0, pc non-increasing)']
def jobs(tier):
    out = []
    for n in ((3,) if tier == 'quick' else (3, 4)):
        out.append(dict(name='unscaled_n%d' % n, src='h_satfunc.cpp', defs={'NT': n}, entry='h_unscaled', fp='real', loopmax=2000, maxsteps=4000000, bounds='%d nodes' % n))
    for tp in (0, 1):
        out.append(dict(name='eps_%dpt' % (3 if tp else 2), src='h_satfunc.cpp', defs={'NT': 3, 'THREEPT': tp}, entry='h_eps_sat,h_eps_identity,h_eps_krw_vertical', fp='real', loopmax=2000, maxsteps=4000000,
                        bounds='%s-point scaling' % ('three' if tp else 'two')))
    for n in ((3,) if tier == 'quick' else (3, 4, 5)):
        out.append(dict(name='inverse_n%d' % n, src='h_satfunc.cpp', defs=({'NT': n} if n == 3 else {'NT': n, 'SWFIXED': 1}), entry='h_inverse', fp='real', loopmax=2000, maxsteps=4000000, timeout=900,
                        bounds='%d nodes, strictly monotone columns%s' % (n, '' if n == 3 else ', saturation nodes at fixed positions')))
    out.append(dict(name='points_init', src='h_satfunc.cpp', defs={'NT': 3}, entry='h_points_init', tus=['opm/material/fluidmatrixinteractions/EclEpsScalingPoints.cpp'], fp='real', loopmax=2000, bounds='all real end-point values, oil-water and gas-oil systems'))
    out.append(dict(name='eps_roundtrip_2pt', src='h_satfunc.cpp', defs={'NT': 3, 'THREEPT': 0}, entry='h_eps_roundtrip', fp='real', loopmax=2000, maxsteps=4000000, bounds='two-point scaling, inverse map'))
    for seg in (0, 1):
        out.append(dict(name='eps_roundtrip_3pt_seg%d' % seg, src='h_satfunc.cpp', defs={'NT': 3, 'THREEPT': 1, 'SEG': seg}, entry='h_eps_roundtrip', fp='real', loopmax=2000, maxsteps=4000000,
                        bounds='three-point scaling, inverse map on sub-interval %d' % seg, opts=['--qtimeout', '60000']))
    for same, krm in ((0, 0), (1, 0), (0, 1)):
        out.append(dict(name='hysteresis_carlson%s%s' % ('_same' if same else '', '_model1' if krm else ''), src='h_hyst.cpp', defs={'SAMECURVES': same, 'KRMODEL': krm}, entry='h_carlson', fp='real', loopmax=2000, maxsteps=8000000, timeout=900, partial_sites=True,
                        bounds='Carlson non-wetting relperm hysteresis, concrete 3-node drainage and imbibition tables, two symbolic saturations seen in sequence, symbolic query point%s' % (' ; identical curves' if same else '')))
    out.append(dict(name='hysteresis_disabled', src='h_hyst.cpp', defs={}, entry='h_disabled', fp='real', loopmax=2000, maxsteps=8000000, timeout=900, bounds='hysteresis switched off'))
    return out
