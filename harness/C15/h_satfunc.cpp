// C15: piecewise-linear saturation functions and ECL end-point scaling (two- and three-point, saturations and relperm values):
// node honouring, bounds and monotonicity, scaled end-points map onto table end-points, identity scaling, inverse maps.
#include <vector>
#include <memory>
#include <algorithm>
#include <verif.h>
#include <opm/material/fluidmatrixinteractions/MaterialTraits.hpp>
#include <opm/material/fluidmatrixinteractions/PiecewiseLinearTwoPhaseMaterial.hpp>
#include <opm/material/fluidmatrixinteractions/PiecewiseLinearTwoPhaseMaterialParams.hpp>
#include <opm/material/fluidmatrixinteractions/EclEpsTwoPhaseLaw.hpp>
#include <opm/material/fluidmatrixinteractions/EclEpsTwoPhaseLawParams.hpp>
#include <opm/material/fluidmatrixinteractions/EclEpsScalingPoints.hpp>
#include <opm/material/fluidmatrixinteractions/EclEpsConfig.hpp>
#ifndef NT
#define NT 3
#endif
#ifndef THREEPT
#define THREEPT 0
#endif
#define CEQ(a, b) CHECK(EQ((a), (b)))
typedef Opm::TwoPhaseMaterialTraits<double, 0, 1> Traits;
typedef Opm::PiecewiseLinearTwoPhaseMaterial<Traits> Eff;
typedef Eff::Params EffParams;
typedef Opm::EclEpsTwoPhaseLaw<Eff> Eps;
typedef Eps::Params EpsParams;
typedef Opm::EclEpsScalingPoints<double> Pts;
static double mn(double a, double b) { return a < b ? a : b; }
static double mx(double a, double b) { return a > b ? a : b; }

struct Table { std::vector<double> sw, krw, krn, pc; };
static Table mktable() {            // monotone SWOF-like table: Sw increasing, krw non-decreasing from 0, krn non-increasing to 0, pc non-increasing
    Table t; t.sw.resize(NT); t.krw.resize(NT); t.krn.resize(NT); t.pc.resize(NT);
    for (int i = 0; i < NT; ++i) {
#ifdef SWFIXED
        { static const double fixed[6] = { 0.125, 0.25, 0.5, 0.625, 0.875, 1.0 }; t.sw[i] = fixed[i]; }     // saturation nodes at fixed non-uniform positions (keeps the inverse maps linear in the symbolic columns)
#else
        t.sw[i] = verif_nondet_real();
#endif
        t.krw[i] = verif_nondet_real(); t.krn[i] = verif_nondet_real(); t.pc[i] = verif_nondet_real();
        ASSUME(t.sw[i] >= 0 && t.sw[i] <= 1 && t.krw[i] >= 0 && t.krw[i] <= 1 && t.krn[i] >= 0 && t.krn[i] <= 1);
        if (i) ASSUME(t.sw[i] > t.sw[i - 1] && t.krw[i] >= t.krw[i - 1] && t.krn[i] <= t.krn[i - 1] && t.pc[i] <= t.pc[i - 1]);
    }
    ASSUME(t.krw[0] == 0.0 && t.krn[NT - 1] == 0.0);
    return t;
}
static std::shared_ptr<EffParams> mkeff(const Table& t) {
    auto p = std::make_shared<EffParams>();
    p->setKrwSamples(t.sw, t.krw); p->setKrnSamples(t.sw, t.krn); p->setPcnwSamples(t.sw, t.pc); p->finalize();
    return p;
}
// ---- unscaled curves
extern "C" void h_unscaled(void) {
    Table t = mktable(); auto p = mkeff(t);
    for (int i = 0; i < NT; ++i) { CEQ(Eff::twoPhaseSatKrw(*p, t.sw[i]), t.krw[i]); CEQ(Eff::twoPhaseSatKrn(*p, t.sw[i]), t.krn[i]); CEQ(Eff::twoPhaseSatPcnw(*p, t.sw[i]), t.pc[i]); }
    double s = verif_nondet_real(), s2 = verif_nondet_real(); ASSUME(s >= 0 && s <= 1 && s2 >= s && s2 <= 1);
    double kw = Eff::twoPhaseSatKrw(*p, s), kn = Eff::twoPhaseSatKrn(*p, s), pc = Eff::twoPhaseSatPcnw(*p, s);
    CHECK(kw >= 0 && kw <= t.krw[NT - 1]); CHECK(kn >= 0 && kn <= t.krn[0]);                       // within [0, max]
    CHECK(Eff::twoPhaseSatKrw(*p, s2) >= kw); CHECK(Eff::twoPhaseSatKrn(*p, s2) <= kn); CHECK(Eff::twoPhaseSatPcnw(*p, s2) <= pc);    // monotone
    for (int i = 0; i + 1 < NT; ++i) if (s >= t.sw[i] && s <= t.sw[i + 1]) {
        CHECK(kw >= t.krw[i] && kw <= t.krw[i + 1]); CHECK(kn <= t.krn[i] && kn >= t.krn[i + 1]); CHECK(pc <= t.pc[i] && pc >= t.pc[i + 1]);
        CEQ((kw - t.krw[i]) * (t.sw[i + 1] - t.sw[i]), (t.krw[i + 1] - t.krw[i]) * (s - t.sw[i]));
    }
    if (s < t.sw[0]) { CEQ(kw, t.krw[0]); CEQ(kn, t.krn[0]); }          // constant continuation outside the table
    if (s > t.sw[NT - 1]) { CEQ(kw, t.krw[NT - 1]); CEQ(kn, t.krn[NT - 1]); }
}
// ---- end-point scaling
static void setpts(Pts& p, const double kw[3], const double kn[3], const double pc[2], double maxkrw, double maxkrn, double krwr, double krnr, double maxpc) {
    for (int i = 0; i < 3; ++i) { p.setSaturationKrwPoint(i, kw[i]); p.setSaturationKrnPoint(i, kn[i]); }
    p.setSaturationPcPoint(0, pc[0]); p.setSaturationPcPoint(1, pc[1]); p.setSaturationPcPoint(2, pc[1]);
    p.setMaxKrw(maxkrw); p.setMaxKrn(maxkrn); p.setKrwr(krwr); p.setKrnr(krnr); p.setMaxPcnw(maxpc);
}
static void ordered3(double v[3]) { for (int i = 0; i < 3; ++i) { v[i] = verif_nondet_real(); ASSUME(v[i] >= 0 && v[i] <= 1); if (i) ASSUME(v[i] > v[i - 1]); } }
extern "C" void h_eps_sat(void) {
    Table t = mktable(); auto eff = mkeff(t);
    auto cfg = std::make_shared<Opm::EclEpsConfig>(); cfg->setEnableSatScaling(true); cfg->setEnableThreePointKrSatScaling(THREEPT);
    double ukw[3], ukn[3], upc[2], skw[3], skn[3], spc[2];
    ordered3(ukw); ordered3(ukn); ordered3(skw); ordered3(skn);
    upc[0] = verif_nondet_real(); upc[1] = verif_nondet_real(); spc[0] = verif_nondet_real(); spc[1] = verif_nondet_real(); ASSUME(upc[0] < upc[1] && spc[0] < spc[1]);
    auto un = std::make_shared<Pts>(); setpts(*un, ukw, ukn, upc, 1, 1, 0.5, 0.5, 1); Pts sc; setpts(sc, skw, skn, spc, 1, 1, 0.5, 0.5, 1);
    EpsParams P; P.setConfig(cfg); P.setUnscaledPoints(un); P.setScaledPoints(sc); P.setEffectiveLawParams(eff); P.finalize();
    // scaled end-points map onto the table end-points
    CEQ(Eps::scaledToUnscaledSatKrw(P, skw[0]), ukw[0]); CEQ(Eps::scaledToUnscaledSatKrw(P, skw[2]), ukw[2]);
    CEQ(Eps::scaledToUnscaledSatKrn(P, skn[0]), ukn[0]); CEQ(Eps::scaledToUnscaledSatKrn(P, skn[2]), ukn[2]);
    CEQ(Eps::scaledToUnscaledSatPc(P, spc[0]), upc[0]);  CEQ(Eps::scaledToUnscaledSatPc(P, spc[1]), upc[1]);
    if (THREEPT) { CEQ(Eps::scaledToUnscaledSatKrw(P, skw[1]), ukw[1]); CEQ(Eps::scaledToUnscaledSatKrn(P, skn[1]), ukn[1]); }
    // the map is monotone and stays inside the table range
    double s = verif_nondet_real(), s2 = verif_nondet_real(); ASSUME(s >= skw[0] && s <= s2 && s2 <= skw[2]);
    double u = Eps::scaledToUnscaledSatKrw(P, s), u2 = Eps::scaledToUnscaledSatKrw(P, s2);
    CHECK(u <= u2); CHECK(u >= ukw[0] && u2 <= ukw[2]);
    double q = verif_nondet_real(); CEQ(Eps::unscaledToScaledSatPc(P, Eps::scaledToUnscaledSatPc(P, q)), q);
}
// unscaledToScaled o scaledToUnscaled = id on the scaled range (one sub-interval per job in the three-point case)
#ifndef SEG
#define SEG 0
#endif
extern "C" void h_eps_roundtrip(void) {
    Table t = mktable(); auto eff = mkeff(t);
    auto cfg = std::make_shared<Opm::EclEpsConfig>(); cfg->setEnableSatScaling(true); cfg->setEnableThreePointKrSatScaling(THREEPT);
    double ukw[3], ukn[3], upc[2] = { 0, 1 }, skw[3], skn[3], spc[2] = { 0, 1 };
    ordered3(ukw); ordered3(ukn); ordered3(skw); ordered3(skn);
    auto un = std::make_shared<Pts>(); setpts(*un, ukw, ukn, upc, 1, 1, 0.5, 0.5, 1); Pts sc; setpts(sc, skw, skn, spc, 1, 1, 0.5, 0.5, 1);
    EpsParams P; P.setConfig(cfg); P.setUnscaledPoints(un); P.setScaledPoints(sc); P.setEffectiveLawParams(eff); P.finalize();
    double s = verif_nondet_real(), r = verif_nondet_real();
#if THREEPT
    ASSUME(s > skw[SEG] && s < skw[SEG + 1] && r > skn[SEG] && r < skn[SEG + 1]);
#else
    ASSUME(s >= skw[0] && s <= skw[2] && r >= skn[0] && r <= skn[2]);
#endif
    CEQ(Eps::unscaledToScaledSatKrw(P, Eps::scaledToUnscaledSatKrw(P, s)), s);
    CEQ(Eps::unscaledToScaledSatKrn(P, Eps::scaledToUnscaledSatKrn(P, r)), r);
}
// scaling with the table's own end-points is the identity (saturations, relperms and pc)
extern "C" void h_eps_identity(void) {
    Table t = mktable(); auto eff = mkeff(t);
    auto cfg = std::make_shared<Opm::EclEpsConfig>(); cfg->setEnableSatScaling(true); cfg->setEnableThreePointKrSatScaling(THREEPT);
    cfg->setEnableKrwScaling(true); cfg->setEnableKrnScaling(true); cfg->setEnablePcScaling(true); cfg->setEnableThreePointKrwScaling(THREEPT); cfg->setEnableThreePointKrnScaling(THREEPT);
    double kw[3], kn[3], pc[2]; ordered3(kw); ordered3(kn); pc[0] = verif_nondet_real(); pc[1] = verif_nondet_real(); ASSUME(pc[0] < pc[1]);
    double maxkrw = verif_nondet_real(), maxkrn = verif_nondet_real(), krwr = verif_nondet_real(), krnr = verif_nondet_real(), maxpc = verif_nondet_real();
    ASSUME(maxkrw > 0 && maxkrn > 0 && krwr > 0 && krwr < maxkrw && krnr > 0 && krnr < maxkrn && maxpc > 0);
    auto un = std::make_shared<Pts>(); setpts(*un, kw, kn, pc, maxkrw, maxkrn, krwr, krnr, maxpc); Pts sc = *un;
    EpsParams P; P.setConfig(cfg); P.setUnscaledPoints(un); P.setScaledPoints(sc); P.setEffectiveLawParams(eff); P.finalize();
    double s = verif_nondet_real(); ASSUME(s >= 0 && s <= 1);
    if (s >= kw[0] && s <= kw[2]) CEQ(Eps::scaledToUnscaledSatKrw(P, s), s);
    if (s >= kn[0] && s <= kn[2]) CEQ(Eps::scaledToUnscaledSatKrn(P, s), s);
    CEQ(Eps::scaledToUnscaledSatPc(P, s), s);
    CEQ(Eps::twoPhaseSatPcnw(P, s), Eff::twoPhaseSatPcnw(*eff, s));
#if !THREEPT
    CEQ(Eps::twoPhaseSatKrw(P, s), Eff::twoPhaseSatKrw(*eff, Eps::scaledToUnscaledSatKrw(P, s)));
    CEQ(Eps::twoPhaseSatKrn(P, s), Eff::twoPhaseSatKrn(*eff, Eps::scaledToUnscaledSatKrn(P, s)));
#endif
}
// vertical (value) scaling of krw: scaled maximum at the maximum saturation, KRWR at the displacing critical saturation
extern "C" void h_eps_krw_vertical(void) {
    Table t = mktable(); auto eff = mkeff(t);
    auto cfg = std::make_shared<Opm::EclEpsConfig>(); cfg->setEnableKrwScaling(true); cfg->setEnableThreePointKrwScaling(THREEPT);
    cfg->setEnableSatScaling(true); cfg->setEnableThreePointKrSatScaling(THREEPT);          // the cell's saturation end-points differ from the table's
    double kw[3], kn[3], skw[3], pc[2] = { 0, 1 }; ordered3(kw); ordered3(kn); ordered3(skw);
    double ukrwr = verif_nondet_real(), umax = verif_nondet_real(), skrwr = verif_nondet_real(), smax = verif_nondet_real();
    ASSUME(ukrwr > 0 && umax > ukrwr && skrwr > 0 && smax >= skrwr);
    auto un = std::make_shared<Pts>(); setpts(*un, kw, kn, pc, umax, 1, ukrwr, 0.5, 1); Pts sc; setpts(sc, skw, kn, pc, smax, 1, skrwr, 0.5, 1);
    EpsParams P; P.setConfig(cfg); P.setUnscaledPoints(un); P.setScaledPoints(sc); P.setEffectiveLawParams(eff); P.finalize();
    double s = verif_nondet_real(); ASSUME(s >= 0 && s <= 1);
    double ku = Eff::twoPhaseSatKrw(*eff, Eps::scaledToUnscaledSatKrw(P, s)), ks = Eps::twoPhaseSatKrw(P, s);      // table value at the mapped saturation
#if !THREEPT
    CEQ(ks * umax, ku * smax);                                    // pure vertical scaling by KRW / KRW(table)
#else
    if (!(s > skw[1])) CEQ(ks * ukrwr, ku * skrwr);                 // left of the CELL's displacing critical saturation: scaled by KRWR / KRWR(table)
    else { CEQ((ks - skrwr) * (umax - ukrwr), (ku - ukrwr) * (smax - skrwr)); }   // right: linear between (KRWR, KRW) in terms of the table value
    if (ku == umax && s > skw[1]) CEQ(ks, smax);
    if (ku == ukrwr && s > skw[1]) CEQ(ks, skrwr);
#endif
}

// ---- inverse curves: Inv(f(Sw)) = Sw wherever the tabulated curve is strictly monotone (krn and pc are tabulated descending in Sw)
extern "C" void h_inverse(void) {
    Table t = mktable();
    for (int i = 1; i < NT; ++i) ASSUME(t.krw[i] > t.krw[i - 1] && t.krn[i] < t.krn[i - 1] && t.pc[i] < t.pc[i - 1]);
    auto p = mkeff(t);
    double s = verif_nondet_real(); ASSUME(s >= t.sw[0] && s <= t.sw[NT - 1]);
    CEQ(Eff::twoPhaseSatKrwInv(*p, Eff::twoPhaseSatKrw(*p, s)), s);
    CEQ(Eff::twoPhaseSatKrnInv(*p, Eff::twoPhaseSatKrn(*p, s)), s);
    CEQ(Eff::twoPhaseSatPcnwInv(*p, Eff::twoPhaseSatPcnw(*p, s)), s);
    for (int i = 0; i < NT; ++i) { CEQ(Eff::twoPhaseSatKrnInv(*p, t.krn[i]), t.sw[i]); CEQ(Eff::twoPhaseSatKrwInv(*p, t.krw[i]), t.sw[i]); }
}
// ---- EclEpsScalingPoints::init: the scaling points of each two-phase system in terms of its wetting-phase saturation

extern "C" void h_points_init(void) {
    Opm::EclEpsScalingPointsInfo<double> e;
    e.Swl = verif_nondet_real(); e.Sgl = verif_nondet_real(); e.Swcr = verif_nondet_real(); e.Sgcr = verif_nondet_real(); e.Sowcr = verif_nondet_real(); e.Sogcr = verif_nondet_real(); e.Swu = verif_nondet_real(); e.Sgu = verif_nondet_real();
    e.maxPcow = verif_nondet_real(); e.maxPcgo = verif_nondet_real(); e.pcowLeverettFactor = verif_nondet_real(); e.pcgoLeverettFactor = verif_nondet_real();
    e.Krwr = verif_nondet_real(); e.Krgr = verif_nondet_real(); e.Krorw = verif_nondet_real(); e.Krorg = verif_nondet_real(); e.maxKrw = verif_nondet_real(); e.maxKrow = verif_nondet_real(); e.maxKrog = verif_nondet_real(); e.maxKrg = verif_nondet_real();
    Opm::EclEpsConfig cfg; const bool lev = nondet_bool(); cfg.setEnableLeverettScaling(lev);
    {   // oil-water: wetting phase water, saturations are Sw
        Pts p; p.init(e, cfg, Opm::EclTwoPhaseSystemType::OilWater);
        CEQ(p.saturationPcPoints()[0], e.Swl); CEQ(p.saturationPcPoints()[2], e.Swu);
        CEQ(p.saturationKrwPoints()[0], e.Swcr); CEQ(p.saturationKrwPoints()[1], 1.0 - e.Sowcr - e.Sgl); CEQ(p.saturationKrwPoints()[2], e.Swu);
        CEQ(p.saturationKrnPoints()[0], e.Swl + e.Sgl); CEQ(p.saturationKrnPoints()[1], e.Swcr + e.Sgl); CEQ(p.saturationKrnPoints()[2], 1.0 - e.Sowcr);     // oil: So = 1 - Sw (- Sgl)
        CEQ(p.maxKrw(), e.maxKrw); CEQ(p.maxKrn(), e.maxKrow); CEQ(p.krwr(), e.Krwr); CEQ(p.krnr(), e.Krorw); CEQ(p.maxPcnw(), lev ? e.pcowLeverettFactor : e.maxPcow);
    }
    {   // gas-oil: wetting phase oil, saturations are So = 1 - Sg - Swl
        Pts p; p.init(e, cfg, Opm::EclTwoPhaseSystemType::GasOil);
        CEQ(p.saturationPcPoints()[0], 1.0 - e.Swl - e.Sgu); CEQ(p.saturationPcPoints()[2], 1.0 - e.Swl - e.Sgl);
        CEQ(p.saturationKrwPoints()[0], e.Sogcr); CEQ(p.saturationKrwPoints()[1], 1.0 - e.Sgcr - e.Swl); CEQ(p.saturationKrwPoints()[2], 1.0 - e.Swl - e.Sgl);
        CEQ(p.saturationKrnPoints()[0], 1.0 - e.Swl - e.Sgu); CEQ(p.saturationKrnPoints()[1], e.Sogcr); CEQ(p.saturationKrnPoints()[2], 1.0 - e.Swl - e.Sgcr);    // gas critical: Sg = SGCR
        CEQ(p.maxKrw(), e.maxKrog); CEQ(p.maxKrn(), e.maxKrg); CEQ(p.krwr(), e.Krorg); CEQ(p.krnr(), e.Krgr); CEQ(p.maxPcnw(), lev ? e.pcgoLeverettFactor : e.maxPcgo);
    }
}
