// C11 (flat classes, generic): for a class whose members are scalars, enums, bools, optional<scalar>, arrays of scalars or nested classes of
// that kind, the real serializeOp is run three times:
//  (1) with a layout visitor that records which bytes of the object it mentions: the mentioned spans must tile the object - no byte range
//      mentioned twice, no gap that alignment cannot explain (a gap is a member missing from serializeOp);
//  (2)+(3) through the real Serializer<MemPacker>: pack an object in which every mentioned byte carries its own symbolic bit, unpack into
//      a zero object: every mentioned byte must come back (decided by the solver as term equality), size pass = write pass, unpack consumes
//      exactly the packed bytes.
#include <string>
#include <vector>
#include <array>
#include <optional>
#include <cstring>
#include <new>
#include <type_traits>
#include <verif.h>
#include <opm/common/utility/MemPacker.hpp>
#define private public
#define protected public
#include <opm/common/utility/Serializer.hpp>
#include <opm/input/eclipse/Schedule/Tuning.hpp>
#include <opm/input/eclipse/EclipseState/Tables/Tabdims.hpp>
#include <opm/input/eclipse/EclipseState/Tables/Regdims.hpp>
#include <opm/input/eclipse/EclipseState/Tables/Eqldims.hpp>
#include <opm/input/eclipse/EclipseState/Tables/Aqudims.hpp>
#include <opm/input/eclipse/EclipseState/Tables/StandardCond.hpp>
#include <opm/input/eclipse/EclipseState/Tables/JFunc.hpp>
#include <opm/input/eclipse/EclipseState/MICPpara.hpp>
#include <opm/input/eclipse/EclipseState/EndpointScaling.hpp>
#include <opm/input/eclipse/EclipseState/Runspec.hpp>
#include <opm/input/eclipse/EclipseState/Aquifer/NumericalAquifer/NumericalAquiferCell.hpp>
#include <opm/input/eclipse/Schedule/Action/Actdims.hpp>
#include <opm/input/eclipse/Schedule/Network/Balance.hpp>
#include <opm/input/eclipse/Schedule/ScheduleRestartInfo.hpp>
#include <opm/input/eclipse/Schedule/MessageLimits.hpp>
#include <opm/input/eclipse/Schedule/Well/WellBrineProperties.hpp>
#include <opm/input/eclipse/Schedule/Well/WellPolymerProperties.hpp>
#include <opm/input/eclipse/Schedule/Well/WellMICPProperties.hpp>
#include <opm/input/eclipse/Schedule/Well/WellFoamProperties.hpp>
#include <opm/input/eclipse/Schedule/Well/PAvg.hpp>
#include <opm/input/eclipse/Schedule/Well/WDFAC.hpp>
#include <opm/input/eclipse/Schedule/Well/WVFPEXP.hpp>
#include <opm/input/eclipse/Schedule/Well/WVFPDP.hpp>
#include <opm/input/eclipse/Schedule/Well/Connection.hpp>
#include <opm/input/eclipse/Units/Dimension.hpp>
#include <opm/input/eclipse/EclipseState/Grid/GridDims.hpp>
#undef private
#undef protected
using Ser = Opm::Serializer<Opm::Serialization::MemPacker>;

struct Span { size_t off, size, align; bool flag; };          // flag: the engaged byte of an optional (kept true, not flipped)
struct Layout {
    const unsigned char* base; size_t total; std::vector<Span> spans; bool ok = true;
    template <class T> struct is_opt : std::false_type {}; template <class U> struct is_opt<std::optional<U>> : std::true_type {};
    template <class T> struct is_arr : std::false_type {}; template <class U, size_t N> struct is_arr<std::array<U, N>> : std::true_type {};
    template <class T, class = void> struct has_ser : std::false_type {};
    template <class T> struct has_ser<T, std::void_t<decltype(std::declval<T&>().serializeOp(std::declval<Layout&>()))>> : std::true_type {};
    template <class T> void operator()(const T& m) {
        const size_t off = reinterpret_cast<const unsigned char*>(&m) - base;
        if constexpr (is_opt<T>::value) {
            using U = typename T::value_type; static_assert(std::is_arithmetic_v<U> || std::is_enum_v<U>, "optional of scalar only");
            spans.push_back({ off, sizeof(U), alignof(T), false }); spans.push_back({ off + sizeof(U), 1, 1, true });       // libstdc++: payload first, engaged flag right after it
            if (sizeof(T) > sizeof(U) + 1) spans.push_back({ off + sizeof(U) + 1, sizeof(T) - sizeof(U) - 1, 1, true });   // tail padding inside the optional
        } else if constexpr (is_arr<T>::value) { for (const auto& e : m) (*this)(e); }
        else if constexpr (has_ser<T>::value) { const_cast<T&>(m).serializeOp(*this); if (!std::is_empty_v<T>) tail_of_nested(off, sizeof(T)); }
        else { static_assert(std::is_arithmetic_v<T> || std::is_enum_v<T>, "flat classes only"); spans.push_back({ off, sizeof(T), alignof(T), false }); }
    }
    void tail_of_nested(size_t off, size_t size) { nested.push_back({ off, size, 1, false }); }
    std::vector<Span> nested;
};
// the spans must tile [0, total): sorted by offset, no overlap, every gap smaller than the alignment of what follows (or of the enclosing object)
static void tiles(std::vector<Span> v, const std::vector<Span>& nested, size_t total, size_t align_total) {
    for (size_t i = 0; i < v.size(); ++i) for (size_t j = i + 1; j < v.size(); ++j) if (v[j].off < v[i].off) { Span t = v[i]; v[i] = v[j]; v[j] = t; }
    size_t end = 0;
    for (const Span& s : v) {
        CHECK(s.off >= end);                                     // no byte mentioned twice (a member serialized twice)
        size_t lim = s.align; for (const Span& n : nested) if (n.off <= s.off && s.off < n.off + n.size && n.off >= end) lim = lim < 16 ? 16 : lim;   // first member of a nested object: its alignment
        if (s.off > end) CHECK(s.off - end < (lim > 1 ? lim : 8) && (s.off % s.align) == 0);         // a gap that alignment explains
        end = s.off + s.size;
    }
    CHECK(end <= total && total - end < align_total);
}
template <class T> static void flat_roundtrip() {
    constexpr size_t N = sizeof(T);
    alignas(16) static unsigned char X[N], Y[N];
    std::memset(X, 0, N); std::memset(Y, 0, N);
    T& x = *reinterpret_cast<T*>(X); T& y = *reinterpret_cast<T*>(Y);
    Layout lay; lay.base = X; lay.total = N; x.serializeOp(lay);
    tiles(lay.spans, lay.nested, N, alignof(T));
    for (const Span& s : lay.spans) for (size_t i = 0; i < s.size; ++i) {
        if (s.flag) { if (i == 0 && s.align == 1 && s.size == 1) X[s.off] = 1; continue; }       // optional engaged
        X[s.off + i] ^= (unsigned char) (nondet_uchar() & 1);                                                // an own symbolic bit in every member byte
    }
    Opm::Serialization::MemPacker packer; Ser ser(packer);
    ser.pack(x);
    const size_t packed = ser.position(); CHECK(packed == ser.m_buffer.size());
    ser.unpack(y);
    CHECK(ser.position() == packed);
    for (const Span& s : lay.spans) for (size_t i = 0; i < s.size; ++i) if (!s.flag || s.size == 1) CHECK(Y[s.off + i] == X[s.off + i]);
}
#define FLAT(name, ...) extern "C" void h_flat_##name(void) { flat_roundtrip<__VA_ARGS__>(); }
FLAT(tuning, Opm::Tuning)
FLAT(tabdims, Opm::Tabdims)
FLAT(regdims, Opm::Regdims)
FLAT(eqldims, Opm::Eqldims)
FLAT(aqudims, Opm::Aqudims)
FLAT(stcond, Opm::StandardCond)
FLAT(micppara, Opm::MICPpara)
FLAT(actdims, Opm::Actdims)
FLAT(balance, Opm::Network::Balance)
FLAT(rstinfo, Opm::ScheduleRestartInfo)
FLAT(brine, Opm::WellBrineProperties)
FLAT(polymer, Opm::WellPolymerProperties)
FLAT(micp, Opm::WellMICPProperties)
FLAT(foam, Opm::WellFoamProperties)
FLAT(pavg, Opm::PAvg)
FLAT(wdfac, Opm::WDFAC)
FLAT(wvfpexp, Opm::WVFPEXP)
FLAT(wvfpdp, Opm::WVFPDP)
FLAT(ctf, Opm::Connection::CTFProperties)
FLAT(dimension, Opm::Dimension)
FLAT(griddims, Opm::GridDims)
FLAT(netdims, Opm::NetworkDims)
FLAT(aqdims2, Opm::AquiferDimensions)
FLAT(hyster, Opm::EclHysterConfig)
FLAT(satctrl, Opm::SatFuncControls)
FLAT(nupcol, Opm::Nupcol)
FLAT(tracers, Opm::Tracers)
FLAT(numaqcell, Opm::NumericalAquiferCell)
