// C11: Serializer<MemPacker> round trips with symbolic contents: every container handler of Serializer.hpp (POD, string, vector, vector<bool>,
// array, optional, variant, pair/tuple, map, set, shared_ptr identity) and the real serializeOp of flat classes; the unpacked object must
// equal the packed one in every member (bit patterns for doubles), unpack must consume exactly the packed bytes, packing again gives the same bytes.
#include <string>
#include <vector>
#include <array>
#include <map>
#include <set>
#include <optional>
#include <variant>
#include <tuple>
#include <memory>
#include <cstring>
#include <verif.h>
#include <opm/common/utility/MemPacker.hpp>
#define private public
#define protected public
#include <opm/common/utility/Serializer.hpp>
#include <opm/input/eclipse/Schedule/Well/Connection.hpp>
#include <opm/input/eclipse/Schedule/CompletedCells.hpp>
#include <opm/input/eclipse/Units/Dimension.hpp>
#include <opm/input/eclipse/EclipseState/Grid/GridDims.hpp>
#include <opm/input/eclipse/Schedule/Action/State.hpp>
#include <opm/material/densead/Evaluation.hpp>
#undef private
#undef protected
using Ser = Opm::Serializer<Opm::Serialization::MemPacker>;
static double symd() { unsigned long b = nondet_ulong(); double d; std::memcpy(&d, &b, 8); return d; }     // any bit pattern, NaN payloads included
static bool same(double a, double b) { return std::memcmp(&a, &b, 8) == 0; }
static std::string symstr(size_t n) { std::string s(n, 'x'); for (auto& c : s) c = nondet_char(); return s; }

template <class T, class Eq> static void roundtrip(const T& x, T& y, Eq eq, bool same_bytes = true) {
    Opm::Serialization::MemPacker packer; Ser ser(packer);
    ser.pack(x);
    const size_t packed = ser.position(); CHECK(packed == ser.m_buffer.size());         // the size pass and the write pass agree
    std::vector<char> bytes = ser.m_buffer;
    ser.unpack(y);
    CHECK(ser.position() == packed);                                                   // unpack consumes exactly what was packed
    CHECK(eq(x, y));
    Ser ser2(packer); ser2.pack(y); CHECK(ser2.m_buffer.size() == bytes.size());
    if (same_bytes) for (size_t i = 0; i < bytes.size(); ++i) CHECK(ser2.m_buffer[i] == bytes[i]);     // packing the copy gives the same bytes (not demanded when shared pointers are
                                                                                                             // present: their identity is transported as the address, which differs in the copy)
}

// ---- container handlers
struct Bag {
    int i; double d; bool b; std::string s; std::vector<double> vd; std::vector<std::string> vs; std::vector<bool> vb; std::array<int, 3> ai;
    std::optional<double> od, od2; std::variant<int, double, std::string> va; std::pair<int, double> pr; std::tuple<int, bool, double> tp;
    std::map<int, double> mp; std::set<int> st; std::shared_ptr<int> p1, p2, p3;
    template <class S> void serializeOp(S& ser) { ser(i); ser(d); ser(b); ser(s); ser(vd); ser(vs); ser(vb); ser(ai); ser(od); ser(od2); ser(va); ser(pr); ser(tp); ser(mp); ser(st); ser(p1); ser(p2); ser(p3); }
};
#ifndef VARIANT_ARM
#define VARIANT_ARM 1
#endif
extern "C" void h_containers(void) {
    Bag x;
    x.i = nondet_int(); x.d = symd(); x.b = nondet_bool(); x.s = symstr(3); x.vd = { symd(), symd() }; x.vs = { symstr(2), symstr(0), symstr(17) };
    x.vb = { nondet_bool(), nondet_bool(), nondet_bool() }; x.ai = { nondet_int(), nondet_int(), nondet_int() };
    x.od = symd(); x.od2 = std::nullopt;
    if (VARIANT_ARM == 0) x.va = nondet_int(); else if (VARIANT_ARM == 1) x.va = symd(); else x.va = symstr(2);
    x.pr = { nondet_int(), symd() }; x.tp = { nondet_int(), nondet_bool(), symd() };
    int k1 = nondet_int(), k2 = nondet_int(); ASSUME(k1 < k2); x.mp = { { k1, symd() }, { k2, symd() } }; x.st = { k1, k2 };
    x.p1 = std::make_shared<int>(nondet_int()); x.p2 = x.p1; x.p3 = nullptr;            // p1 and p2 share one object
    Bag y; y.i = 0; y.d = 0; y.b = false; y.ai = { 0, 0, 0 };
    roundtrip(x, y, [](const Bag& a, const Bag& b) {
        bool ok = a.i == b.i && same(a.d, b.d) && a.b == b.b && a.s == b.s && a.vd.size() == b.vd.size() && a.vs == b.vs && a.vb == b.vb && a.ai == b.ai;
        for (size_t i = 0; ok && i < a.vd.size(); ++i) ok = same(a.vd[i], b.vd[i]);
        ok = ok && b.od.has_value() && same(*a.od, *b.od) && !b.od2.has_value() && a.va.index() == b.va.index();
        if (ok && a.va.index() == 0) ok = std::get<0>(a.va) == std::get<0>(b.va); if (ok && a.va.index() == 1) ok = same(std::get<1>(a.va), std::get<1>(b.va)); if (ok && a.va.index() == 2) ok = std::get<2>(a.va) == std::get<2>(b.va);
        ok = ok && a.pr.first == b.pr.first && same(a.pr.second, b.pr.second) && std::get<0>(a.tp) == std::get<0>(b.tp) && std::get<1>(a.tp) == std::get<1>(b.tp) && same(std::get<2>(a.tp), std::get<2>(b.tp));
        ok = ok && a.mp.size() == b.mp.size() && a.st == b.st;
        if (ok) { auto ia = a.mp.begin(), ib = b.mp.begin(); for (; ia != a.mp.end(); ++ia, ++ib) ok = ok && ia->first == ib->first && same(ia->second, ib->second); }
        ok = ok && b.p1 && b.p2 && *a.p1 == *b.p1 && b.p1 == b.p2 && !b.p3;            // sharing is preserved, null stays null
        return ok; }, false);
}
// ---- real serializeOp member lists of flat classes: every member symbolic, every member compared
extern "C" void h_ctfprops(void) {
    using P = Opm::Connection::CTFProperties; P x;
    x.CF = symd(); x.Kh = symd(); x.Ke = symd(); x.rw = symd(); x.r0 = symd(); x.re = symd(); x.connection_length = symd(); x.skin_factor = symd(); x.d_factor = symd(); x.static_dfac_corr_coeff = symd(); x.peaceman_denom = symd();
    P y; roundtrip(x, y, [](const P& a, const P& b) { return same(a.CF, b.CF) && same(a.Kh, b.Kh) && same(a.Ke, b.Ke) && same(a.rw, b.rw) && same(a.r0, b.r0) && same(a.re, b.re) && same(a.connection_length, b.connection_length)
        && same(a.skin_factor, b.skin_factor) && same(a.d_factor, b.d_factor) && same(a.static_dfac_corr_coeff, b.static_dfac_corr_coeff) && same(a.peaceman_denom, b.peaceman_denom); });
}
extern "C" void h_cell(void) {
    using C = Opm::CompletedCells::Cell; C x;
    x.global_index = nondet_ulong(); x.i = nondet_ulong(); x.j = nondet_ulong(); x.k = nondet_ulong(); x.depth = symd(); x.dimensions = { symd(), symd(), symd() };
    if (nondet_bool()) { C::Props p; p.active_index = nondet_ulong(); p.permx = symd(); p.permy = symd(); p.permz = symd(); p.poro = symd(); p.satnum = nondet_int(); p.pvtnum = nondet_int(); p.ntg = symd(); x.props = p; }
    C y; roundtrip(x, y, [](const C& a, const C& b) {
        bool ok = a.global_index == b.global_index && a.i == b.i && a.j == b.j && a.k == b.k && same(a.depth, b.depth) && same(a.dimensions[0], b.dimensions[0]) && same(a.dimensions[1], b.dimensions[1]) && same(a.dimensions[2], b.dimensions[2])
            && a.props.has_value() == b.props.has_value();
        if (ok && a.props) ok = a.props->active_index == b.props->active_index && same(a.props->permx, b.props->permx) && same(a.props->permy, b.props->permy) && same(a.props->permz, b.props->permz) && same(a.props->poro, b.props->poro)
            && a.props->satnum == b.props->satnum && a.props->pvtnum == b.props->pvtnum && same(a.props->ntg, b.props->ntg);
        return ok; });
}
extern "C" void h_small(void) {
    { Opm::Dimension x(symd(), symd()), y; roundtrip(x, y, [](const Opm::Dimension& a, const Opm::Dimension& b) { return same(a.m_SIfactor, b.m_SIfactor) && same(a.m_SIoffset, b.m_SIoffset); }); }
    { Opm::GridDims x(nondet_ulong(), nondet_ulong(), nondet_ulong()), y; roundtrip(x, y, [](const Opm::GridDims& a, const Opm::GridDims& b) { return a.m_nx == b.m_nx && a.m_ny == b.m_ny && a.m_nz == b.m_nz; }); }
    { using R = Opm::Action::State::RunState; R x; x.run_count = nondet_ulong(); x.last_run = nondet_long(); R y; roundtrip(x, y, [](const R& a, const R& b) { return a.run_count == b.run_count && a.last_run == b.last_run; }); }
    { using E = Opm::DenseAd::Evaluation<double, 3>; E x, y; x.setValue(symd()); for (int i = 0; i < 3; ++i) x.setDerivative(i, symd());
      roundtrip(x, y, [](const E& a, const E& b) { bool ok = same(a.value(), b.value()); for (int i = 0; i < 3; ++i) ok = ok && same(a.derivative(i), b.derivative(i)); return ok; }); }
}
