// C11 (all serialized classes): member coverage of serializeOp.  For every class that the repository serializes (the list of
// tests/test_Serialization.cpp) the real serializeOp is run with a layout visitor that records which bytes of the object it hands to the
// serializer.  The mentioned spans must tile the object: a byte range mentioned twice is a member serialized twice, a gap that alignment
// cannot explain is a member missing from serializeOp.  Members that are transient by design are listed in ALLOW with the reason.
// The object itself is zero storage: only addresses are taken (no member is read), so no constructor has to run.
#include <sstream>
#include <fstream>
#include <iostream>
#include <map>
#include <unordered_map>
#include <set>
#include <memory>
#include <optional>
#include <variant>
#include <functional>
#include <chrono>
#include <filesystem>
#include <random>
#include <regex>
#include <bitset>
#include <array>
#include <deque>
#include <list>
#include <tuple>
#include <mutex>
#include <atomic>
#include <any>
#include <iomanip>
#include <numeric>
#include <vector>
#include <string>
#include <cstring>
#include <type_traits>
#include <boost/date_time.hpp>
#define private public
#define protected public
#include <opm/common/OpmLog/KeywordLocation.hpp>
#include <opm/output/data/Aquifer.hpp>
#include <opm/output/eclipse/RestartValue.hpp>
#include <opm/input/eclipse/Deck/Deck.hpp>
#include <opm/input/eclipse/Deck/DeckItem.hpp>
#include <opm/input/eclipse/EclipseState/Aquifer/Aquancon.hpp>
#include <opm/input/eclipse/EclipseState/Aquifer/AquiferCT.hpp>
#include <opm/input/eclipse/EclipseState/Aquifer/AquiferConfig.hpp>
#include <opm/input/eclipse/EclipseState/Aquifer/Aquifetp.hpp>
#include <opm/input/eclipse/EclipseState/EclipseConfig.hpp>
#include <opm/input/eclipse/EclipseState/Grid/FaceDir.hpp>
#include <opm/input/eclipse/EclipseState/Grid/Fault.hpp>
#include <opm/input/eclipse/EclipseState/Grid/FaultCollection.hpp>
#include <opm/input/eclipse/EclipseState/Grid/FaultFace.hpp>
#include <opm/input/eclipse/EclipseState/Grid/FIPRegionStatistics.hpp>
#include <opm/input/eclipse/EclipseState/Grid/MULTREGTScanner.hpp>
#include <opm/input/eclipse/EclipseState/Grid/NNC.hpp>
#include <opm/input/eclipse/EclipseState/Grid/TranCalculator.hpp>
#include <opm/input/eclipse/EclipseState/Grid/TransMult.hpp>
#include <opm/input/eclipse/EclipseState/IOConfig/IOConfig.hpp>
#include <opm/input/eclipse/EclipseState/InitConfig/Equil.hpp>
#include <opm/input/eclipse/EclipseState/InitConfig/FoamConfig.hpp>
#include <opm/input/eclipse/EclipseState/InitConfig/InitConfig.hpp>
#include <opm/input/eclipse/EclipseState/Runspec.hpp>
#include <opm/input/eclipse/EclipseState/SimulationConfig/BCConfig.hpp>
#include <opm/input/eclipse/EclipseState/SimulationConfig/DatumDepth.hpp>
#include <opm/input/eclipse/EclipseState/SimulationConfig/RockConfig.hpp>
#include <opm/input/eclipse/EclipseState/SimulationConfig/SimulationConfig.hpp>
#include <opm/input/eclipse/EclipseState/SimulationConfig/ThresholdPressure.hpp>
#include <opm/input/eclipse/EclipseState/SummaryConfig/SummaryConfig.hpp>
#include <opm/input/eclipse/EclipseState/Tables/Aqudims.hpp>
#include <opm/input/eclipse/EclipseState/Tables/ColumnSchema.hpp>
#include <opm/input/eclipse/EclipseState/Tables/DenT.hpp>
#include <opm/input/eclipse/EclipseState/Tables/Eqldims.hpp>
#include <opm/input/eclipse/EclipseState/Tables/EzrokhiTable.hpp>
#include <opm/input/eclipse/EclipseState/Tables/FlatTable.hpp>
#include <opm/input/eclipse/EclipseState/Tables/JFunc.hpp>
#include <opm/input/eclipse/EclipseState/Tables/PlymwinjTable.hpp>
#include <opm/input/eclipse/EclipseState/Tables/PlyshlogTable.hpp>
#include <opm/input/eclipse/EclipseState/Tables/PvtgTable.hpp>
#include <opm/input/eclipse/EclipseState/Tables/PvtoTable.hpp>
#include <opm/input/eclipse/EclipseState/Tables/Regdims.hpp>
#include <opm/input/eclipse/EclipseState/Tables/Rock2dTable.hpp>
#include <opm/input/eclipse/EclipseState/Tables/Rock2dtrTable.hpp>
#include <opm/input/eclipse/EclipseState/Tables/RocktabTable.hpp>
#include <opm/input/eclipse/EclipseState/Tables/SimpleTable.hpp>
#include <opm/input/eclipse/EclipseState/Tables/SkprpolyTable.hpp>
#include <opm/input/eclipse/EclipseState/Tables/SkprwatTable.hpp>
#include <opm/input/eclipse/EclipseState/Tables/Tabdims.hpp>
#include <opm/input/eclipse/EclipseState/Tables/TableColumn.hpp>
#include <opm/input/eclipse/EclipseState/Tables/TableContainer.hpp>
#include <opm/input/eclipse/EclipseState/Tables/TableManager.hpp>
#include <opm/input/eclipse/EclipseState/Tables/TableSchema.hpp>
#include <opm/input/eclipse/EclipseState/TracerConfig.hpp>
#include <opm/input/eclipse/Schedule/Action/ASTNode.hpp>
#include <opm/input/eclipse/Schedule/Action/ActionAST.hpp>
#include <opm/input/eclipse/Schedule/Action/ActionResult.hpp>
#include <opm/input/eclipse/Schedule/Action/ActionX.hpp>
#include <opm/input/eclipse/Schedule/Action/Actions.hpp>
#include <opm/input/eclipse/Schedule/Action/Condition.hpp>
#include <opm/input/eclipse/Schedule/Action/PyAction.hpp>
#include <opm/input/eclipse/Schedule/Action/State.hpp>
#include <opm/input/eclipse/Schedule/Events.hpp>
#include <opm/input/eclipse/Schedule/GasLiftOpt.hpp>
#include <opm/input/eclipse/Schedule/Group/GConSale.hpp>
#include <opm/input/eclipse/Schedule/Group/GConSump.hpp>
#include <opm/input/eclipse/Schedule/Group/Group.hpp>
#include <opm/input/eclipse/Schedule/Group/GroupEconProductionLimits.hpp>
#include <opm/input/eclipse/Schedule/Group/GuideRateConfig.hpp>
#include <opm/input/eclipse/Schedule/Group/GuideRateModel.hpp>
#include <opm/input/eclipse/Schedule/MSW/AICD.hpp>
#include <opm/input/eclipse/Schedule/MSW/SICD.hpp>
#include <opm/input/eclipse/Schedule/MSW/Valve.hpp>
#include <opm/input/eclipse/Schedule/MSW/WellSegments.hpp>
#include <opm/input/eclipse/Schedule/MSW/icd.hpp>
#include <opm/input/eclipse/Schedule/MessageLimits.hpp>
#include <opm/input/eclipse/Schedule/Network/Balance.hpp>
#include <opm/input/eclipse/Schedule/Network/ExtNetwork.hpp>
#include <opm/input/eclipse/Schedule/Network/Node.hpp>
#include <opm/input/eclipse/Schedule/OilVaporizationProperties.hpp>
#include <opm/input/eclipse/Schedule/ResCoup/ReservoirCouplingInfo.hpp>
#include <opm/input/eclipse/Schedule/RFTConfig.hpp>
#include <opm/input/eclipse/Schedule/RPTConfig.hpp>
#include <opm/input/eclipse/Schedule/RSTConfig.hpp>
#include <opm/input/eclipse/Schedule/Schedule.hpp>
#include <opm/input/eclipse/Schedule/ScheduleTypes.hpp>
#include <opm/input/eclipse/Schedule/SummaryState.hpp>
#include <opm/input/eclipse/Schedule/Tuning.hpp>
#include <opm/input/eclipse/Schedule/UDQ/UDQASTNode.hpp>
#include <opm/input/eclipse/Schedule/UDQ/UDQActive.hpp>
#include <opm/input/eclipse/Schedule/UDQ/UDQAssign.hpp>
#include <opm/input/eclipse/Schedule/UDQ/UDQConfig.hpp>
#include <opm/input/eclipse/Schedule/UDQ/UDQDefine.hpp>
#include <opm/input/eclipse/Schedule/UDQ/UDQFunction.hpp>
#include <opm/input/eclipse/Schedule/UDQ/UDQFunctionTable.hpp>
#include <opm/input/eclipse/Schedule/UDQ/UDQInput.hpp>
#include <opm/input/eclipse/Schedule/UDQ/UDQState.hpp>
#include <opm/input/eclipse/Schedule/VFPInjTable.hpp>
#include <opm/input/eclipse/Schedule/VFPProdTable.hpp>
#include <opm/input/eclipse/Schedule/Well/Connection.hpp>
#include <opm/input/eclipse/Schedule/Well/FilterCake.hpp>
#include <opm/input/eclipse/Schedule/Well/NameOrder.hpp>
#include <opm/input/eclipse/Schedule/Well/PAvg.hpp>
#include <opm/input/eclipse/Schedule/Well/WDFAC.hpp>
#include <opm/input/eclipse/Schedule/Well/WList.hpp>
#include <opm/input/eclipse/Schedule/Well/WListManager.hpp>
#include <opm/input/eclipse/Schedule/Well/WVFPDP.hpp>
#include <opm/input/eclipse/Schedule/Well/WVFPEXP.hpp>
#include <opm/input/eclipse/Schedule/Well/Well.hpp>
#include <opm/input/eclipse/Schedule/Well/WellBrineProperties.hpp>
#include <opm/input/eclipse/Schedule/Well/WellConnections.hpp>
#include <opm/input/eclipse/Schedule/Well/WellEconProductionLimits.hpp>
#include <opm/input/eclipse/Schedule/Well/WellFoamProperties.hpp>
#include <opm/input/eclipse/Schedule/Well/WellMICPProperties.hpp>
#include <opm/input/eclipse/Schedule/Well/WellPolymerProperties.hpp>
#include <opm/input/eclipse/Schedule/Well/WellTestConfig.hpp>
#include <opm/input/eclipse/Schedule/Well/WellTestState.hpp>
#include <opm/input/eclipse/Schedule/Well/WellTracerProperties.hpp>
#include <opm/input/eclipse/Schedule/WriteRestartFileEvents.hpp>
#include <opm/common/utility/Serializer.hpp>
#include <opm/common/utility/MemPacker.hpp>
#undef private
#undef protected
#include <verif.h>
struct ASpan { size_t off, size, align; };
struct Allow { const char* cls; size_t off, size; const char* why; };
#define OFF(T, m) (reinterpret_cast<size_t>(&reinterpret_cast<Opm::T*>(64)->m) - 64)
#define SZ(T, m) sizeof(reinterpret_cast<Opm::T*>(64)->m)
static const Allow ALLOW[] = {
    { "Well", OFF(Well, unit_system), SZ(Well, unit_system), "pointer to the process-local UnitSystem; re-attached by Schedule::serializeOp after unpacking" },
    { "MULTREGTScanner", OFF(MULTREGTScanner, fp), SZ(MULTREGTScanner, fp), "pointer to the FieldPropsManager of the owning EclipseState (documented as distributed separately)" },
    { "UDQConfig", OFF(UDQConfig, udqft), SZ(UDQConfig, udqft), "function table rebuilt from udq_params on unpack" },
    { "UDQParams", OFF(UDQParams, m_true_rng), SZ(UDQParams, m_true_rng), "random generator state: re-seeded from the serialized seed" },
    { "UDQParams", OFF(UDQParams, m_sim_rng), SZ(UDQParams, m_sim_rng), "random generator state: re-seeded from the serialized seed" },
    { "Deck", OFF(Deck, file_tree), SZ(Deck, file_tree), "include-file tree of the input text; Deck is not among the objects of the property" },
    { "Deck", OFF(Deck, m_global_view), SZ(Deck, m_global_view), "lazily built cache" },
};
struct AuditVisitor {
    const unsigned char* base; size_t total; std::vector<ASpan> spans; int outside = 0;
    template <class T> void operator()(const T& m) { size_t off = (size_t) (reinterpret_cast<const unsigned char*>(&m) - base); if (off >= total) { ++outside; return; } spans.push_back({ off, sizeof(T), alignof(T) }); }
    bool isSerializing() const { return true; }
};
template <class T> static void audit(const char* name) {
    alignas(16) static unsigned char X[sizeof(T)]; std::memset(X, 0, sizeof(T));
    AuditVisitor lay; lay.base = X; lay.total = sizeof(T); reinterpret_cast<T*>(X)->serializeOp(lay);
    for (const Allow& a : ALLOW) if (std::strcmp(a.cls, name) == 0) lay.spans.push_back({ a.off, a.size, 1 });
    if (std::is_polymorphic_v<T>) lay.spans.push_back({ 0, sizeof(void*), alignof(void*) });          // vptr
    std::vector<ASpan>& v = lay.spans;
    for (size_t i = 0; i < v.size(); ++i) for (size_t j = i + 1; j < v.size(); ++j) if (v[j].off < v[i].off) { ASpan t = v[i]; v[i] = v[j]; v[j] = t; }
    size_t end = 0;
    for (const ASpan& s : v) {
        CHECK(s.off >= end);                                    // no member handed to the serializer twice
        CHECK(s.off - end < (s.align > 1 ? s.align : 8));       // no unexplained gap in front of this member: every member before it is mentioned
        end = s.off + s.size;
    }
    CHECK(sizeof(T) - end < alignof(T));                        // ... and none after the last one
}
#define AUDIT(name, ...) extern "C" void h_audit_##name(void) { audit<Opm::__VA_ARGS__>(#__VA_ARGS__); }
AUDIT(Actdims, Actdims)
AUDIT(Aqudims, Aqudims)
AUDIT(Aquancon, Aquancon)
AUDIT(AquiferConfig, AquiferConfig)
AUDIT(AquiferCT, AquiferCT)
AUDIT(Aquifetp, Aquifetp)
AUDIT(AutoICD, AutoICD)
AUDIT(Action__Actions, Action::Actions)
AUDIT(Action__ActionX, Action::ActionX)
AUDIT(Action__AST, Action::AST)
AUDIT(Action__ASTNode, Action::ASTNode)
AUDIT(Action__State, Action::State)
AUDIT(BCConfig, BCConfig)
AUDIT(BrineDensityTable, BrineDensityTable)
AUDIT(ColumnSchema, ColumnSchema)
AUDIT(Connection__CTFProperties, Connection::CTFProperties)
AUDIT(Connection, Connection)
AUDIT(data__AquiferData, data::AquiferData)
AUDIT(data__CarterTracyData, data::CarterTracyData)
AUDIT(data__CellData, data::CellData)
AUDIT(data__Connection, data::Connection)
AUDIT(data__CurrentControl, data::CurrentControl)
AUDIT(data__FetkovichData, data::FetkovichData)
AUDIT(data__GroupAndNetworkValues, data::GroupAndNetworkValues)
AUDIT(data__GroupConstraints, data::GroupConstraints)
AUDIT(data__GroupData, data::GroupData)
AUDIT(data__GroupGuideRates, data::GroupGuideRates)
AUDIT(data__GuideRateValue, data::GuideRateValue)
AUDIT(data__NodeData, data::NodeData)
AUDIT(data__NumericAquiferData, data::NumericAquiferData)
AUDIT(data__Rates, data::Rates)
AUDIT(data__Segment, data::Segment)
AUDIT(data__SegmentPressures, data::SegmentPressures)
AUDIT(data__SegmentPhaseQuantity, data::SegmentPhaseQuantity)
AUDIT(data__Solution, data::Solution)
AUDIT(data__Well, data::Well)
AUDIT(data__Wells, data::Wells)
AUDIT(data__WellBlockAvgPress, data::WellBlockAvgPress)
AUDIT(data__WellBlockAveragePressures, data::WellBlockAveragePressures)
AUDIT(DatumDepth, DatumDepth)
AUDIT(Deck, Deck)
AUDIT(DeckItem, DeckItem)
AUDIT(DeckKeyword, DeckKeyword)
AUDIT(DeckRecord, DeckRecord)
AUDIT(DensityTable, DensityTable)
AUDIT(DenT, DenT)
AUDIT(Dimension, Dimension)
AUDIT(EclHysterConfig, EclHysterConfig)
AUDIT(EclipseConfig, EclipseConfig)
AUDIT(EndpointScaling, EndpointScaling)
AUDIT(Eqldims, Eqldims)
AUDIT(Equil, Equil)
AUDIT(TLMixpar, TLMixpar)
AUDIT(Ppcwmax, Ppcwmax)
AUDIT(Events, Events)
AUDIT(FilterCake, FilterCake)
AUDIT(Fault, Fault)
AUDIT(FaultCollection, FaultCollection)
AUDIT(FaultFace, FaultFace)
AUDIT(FIPRegionStatistics, FIPRegionStatistics)
AUDIT(Fieldprops__TranCalculator, Fieldprops::TranCalculator)
AUDIT(FoamConfig, FoamConfig)
AUDIT(FoamData, FoamData)
AUDIT(GConSale, GConSale)
AUDIT(GConSump, GConSump)
AUDIT(GroupEconProductionLimits, GroupEconProductionLimits)
AUDIT(GridDims, GridDims)
AUDIT(Group, Group)
AUDIT(Group__GroupInjectionProperties, Group::GroupInjectionProperties)
AUDIT(Group__GroupProductionProperties, Group::GroupProductionProperties)
AUDIT(GuideRateConfig, GuideRateConfig)
AUDIT(GuideRateModel, GuideRateModel)
AUDIT(InitConfig, InitConfig)
AUDIT(IOConfig, IOConfig)
AUDIT(JFunc, JFunc)
AUDIT(KeywordLocation, KeywordLocation)
AUDIT(MessageLimits, MessageLimits)
AUDIT(MULTREGTScanner, MULTREGTScanner)
AUDIT(NNC, NNC)
AUDIT(Network__ExtNetwork, Network::ExtNetwork)
AUDIT(Network__Node, Network::Node)
AUDIT(OilVaporizationProperties, OilVaporizationProperties)
AUDIT(PAvg, PAvg)
AUDIT(Phases, Phases)
AUDIT(PlymwinjTable, PlymwinjTable)
AUDIT(PlyshlogTable, PlyshlogTable)
AUDIT(PvcdoTable, PvcdoTable)
AUDIT(PvtgTable, PvtgTable)
AUDIT(PvtoTable, PvtoTable)
AUDIT(PvtwsaltTable, PvtwsaltTable)
AUDIT(PvtwTable, PvtwTable)
AUDIT(Regdims, Regdims)
AUDIT(RestartKey, RestartKey)
AUDIT(RestartValue, RestartValue)
AUDIT(RSTConfig, RSTConfig)
AUDIT(RFTConfig, RFTConfig)
AUDIT(RockConfig, RockConfig)
AUDIT(RockTable, RockTable)
AUDIT(RocktabTable, RocktabTable)
AUDIT(Rock2dtrTable, Rock2dtrTable)
AUDIT(Rock2dTable, Rock2dTable)
AUDIT(Runspec, Runspec)
AUDIT(Schedule, Schedule)
AUDIT(ScheduleDeck, ScheduleDeck)
AUDIT(Segment, Segment)
AUDIT(SimpleTable, SimpleTable)
AUDIT(SimulationConfig, SimulationConfig)
AUDIT(SkprpolyTable, SkprpolyTable)
AUDIT(SkprwatTable, SkprwatTable)
AUDIT(SICD, SICD)
AUDIT(SolventDensityTable, SolventDensityTable)
AUDIT(SummaryConfig, SummaryConfig)
AUDIT(SummaryConfigNode, SummaryConfigNode)
AUDIT(SummaryState, SummaryState)
AUDIT(Tabdims, Tabdims)
AUDIT(TableColumn, TableColumn)
AUDIT(TableContainer, TableContainer)
AUDIT(TableSchema, TableSchema)
AUDIT(ThresholdPressure, ThresholdPressure)
AUDIT(TracerConfig, TracerConfig)
AUDIT(TransMult, TransMult)
AUDIT(Tuning, Tuning)
AUDIT(UDAValue, UDAValue)
AUDIT(UDQAssign, UDQAssign)
AUDIT(UDQActive, UDQActive)
AUDIT(UDQASTNode, UDQASTNode)
AUDIT(UDQConfig, UDQConfig)
AUDIT(UDQDefine, UDQDefine)
AUDIT(UDQIndex, UDQIndex)
AUDIT(UDQParams, UDQParams)
AUDIT(UDQState, UDQState)
AUDIT(Valve, Valve)
AUDIT(VFPInjTable, VFPInjTable)
AUDIT(VFPProdTable, VFPProdTable)
AUDIT(ViscrefTable, ViscrefTable)
AUDIT(WatdentTable, WatdentTable)
AUDIT(WDFAC__Correlation, WDFAC::Correlation)
AUDIT(WDFAC, WDFAC)
AUDIT(Well, Well)
AUDIT(Welldims, Welldims)
AUDIT(WellBrineProperties, WellBrineProperties)
AUDIT(WellConnections, WellConnections)
AUDIT(WellEconProductionLimits, WellEconProductionLimits)
AUDIT(WellFoamProperties, WellFoamProperties)
AUDIT(Well__WellGuideRate, Well::WellGuideRate)
AUDIT(Well__WellInjectionProperties, Well::WellInjectionProperties)
AUDIT(WellPolymerProperties, WellPolymerProperties)
AUDIT(Well__WellProductionProperties, Well::WellProductionProperties)
AUDIT(WellTracerProperties, WellTracerProperties)
AUDIT(WellSegmentDims, WellSegmentDims)
AUDIT(WellSegments, WellSegments)
AUDIT(WellTestConfig, WellTestConfig)
AUDIT(WellTestState, WellTestState)
AUDIT(WellType, WellType)
AUDIT(WListManager, WListManager)
AUDIT(WriteRestartFileEvents, WriteRestartFileEvents)
AUDIT(EzrokhiTable, EzrokhiTable)
