EXPLANATION = ('C11: Serializer<MemPacker> pack/unpack executed with symbolic contents: all container handlers of Serializer.hpp and MemPacker (POD, string, vectors, vector<bool>, array, optional, variant, pair/tuple, map, set, '
  'shared_ptr identity) and the real serializeOp of flat classes (Connection::CTFProperties, CompletedCells::Cell with optional Props, Dimension, GridDims, Action::State::RunState, Evaluation<double,3>).')
BOUNDS = 'containers of 2-3 elements, strings of 0-17 symbolic characters, doubles as arbitrary 64-bit patterns, every scalar member symbolic'
OUTSIDE = 'EclipseState/Schedule/SummaryConfig and every class reached only through parser-built string-keyed maps and pointers (Well, Group, UDQConfig, ...): a member dropped from THEIR serializeOp is not seen'
ASSUMPTIONS = ['std::map/std::set executed from headers with the rb-tree rebalance modelled as plain BST insert']
TUS = ['opm/common/utility/MemPacker.cpp', 'opm/input/eclipse/Units/Dimension.cpp', 'opm/input/eclipse/EclipseState/Grid/GridDims.cpp']
def jobs(tier):
    out = []
    for arm in (0, 1, 2):
        out.append(dict(name='containers_v%d' % arm, src='h_serial.cpp', defs={'VARIANT_ARM': arm}, entry='h_containers', tus=TUS, fp='ieee', loopmax=4000, maxsteps=20000000, partial_sites=True, bounds='variant alternative %d' % arm))
    out.append(dict(name='flat_classes', src='h_serial.cpp', defs={}, entry='h_ctfprops,h_cell,h_small', tus=TUS, fp='ieee', loopmax=4000, maxsteps=20000000))
    return out
