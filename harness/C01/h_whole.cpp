// C01 (whole parser): Parser::parseString on two texts that differ only in meaning-preserving layout yields the same Deck - or rejects both.
// Text A is  "<KEYWORD>\n<body> /\n"; text B re-lays it out (VAR): blank line and leading blanks/tabs, comment lines and a comment plus text after the
// slash, keyword name in lower/mixed case, the slash on a line of its own, item separators doubled.  The body is <= HN arbitrary 7-bit bytes
// without quote, slash, and dash characters (those change what the layout characters mean) - so it ranges over numbers, names, repeat counts n*v,
// defaults n*, blanks, tabs and line breaks between items.  The keyword classes are the real generated ones.
#include "/repo/opm/input/eclipse/Parser/Parser.cpp"
#include <opm/input/eclipse/Parser/ParserKeywords/E.hpp>
#include <opm/input/eclipse/Parser/ParserKeywords/G.hpp>
#include <opm/input/eclipse/Parser/InputErrorAction.hpp>
#include <verif.h>
#ifndef HN
#define HN 3
#endif
#ifndef KWSEL
#define KWSEL 0
#endif
#ifndef VAR
#define VAR 1
#endif
#if KWSEL == 0
#define NAME_A "EQLDIMS"
#define NAME_L "eqlDims"
#else
#define NAME_A "GRIDUNIT"
#define NAME_L "GridUnit"
#endif
struct Outcome { bool threw = false; Opm::Deck deck; };
static Outcome parse(const Opm::Parser& parser, const std::string& text) {
    Outcome o; Opm::ParseContext ctx; Opm::ErrorGuard errors; ctx.update(Opm::InputErrorAction::THROW_EXCEPTION);
    try { o.deck = parser.parseString(text, ctx, errors); } catch (const std::exception&) { o.threw = true; }
    errors.clear();
    return o;
}
extern "C" void h_whole_layout(void) {
    unsigned long n = nondet_ulong(); ASSUME(n <= HN); n = verif_concretize(n, HN);
    std::string body;
    for (unsigned long i = 0; i < n; ++i) {
        unsigned char c = nondet_uchar();
        ASSUME(c < 128 && c != '\'' && c != '"' && c != '/' && c != '-' && c != 0);
        body.push_back((char) c);
    }
    // a body ending in a line break followed by a keyword-like word is excluded by the property ("continuation does not begin with a bare keyword-like word"):
    // the re-layouts below never add a line break inside the body, so both texts share that ambiguity and need no assumption
    const std::string A = std::string(NAME_A "\n") + body + " /\n";
#if VAR == 1
    const std::string B = std::string("\n  \n \t" NAME_A "   \n\n \t") + body + " \t /\n\n";          // blank lines; blanks and a TAB in front of the keyword name and of the record
#elif VAR == 2
    const std::string B = std::string("-- a comment line\n" NAME_A " -- comment behind the keyword\n-- another\n") + body + " / text after the slash -- and a comment\n-- trailing\n";
#elif VAR == 3
    const std::string B = std::string(NAME_L "\n") + body + " /\n";
#else
    const std::string B = std::string(NAME_A "\n") + body + "\n\t/\n";                                  // the slash on a line of its own, indented by a TAB
#endif
    Opm::Parser parser(false);
    parser.addKeyword<Opm::ParserKeywords::EQLDIMS>(); parser.addKeyword<Opm::ParserKeywords::GRIDUNIT>();
    Outcome a = parse(parser, A), b = parse(parser, B);
    CHECK(a.threw == b.threw);
    if (a.threw || b.threw) return;
    CHECK(a.deck.size() == b.deck.size());
    for (std::size_t k = 0; k < a.deck.size() && k < b.deck.size(); ++k) {
        const auto& ka = a.deck[k]; const auto& kb = b.deck[k];
        CHECK(ka.name() == kb.name()); CHECK(ka.size() == kb.size());
        for (std::size_t r = 0; r < ka.size() && r < kb.size(); ++r) {
            const auto& ra = ka.getRecord(r); const auto& rb = kb.getRecord(r);
            CHECK(ra.size() == rb.size());
            for (std::size_t i = 0; i < ra.size() && i < rb.size(); ++i) {
                const auto& ia = ra.getItem(i); const auto& ib = rb.getItem(i);
                CHECK(ia.name() == ib.name()); CHECK(ia.getType() == ib.getType()); CHECK(ia.data_size() == ib.data_size());
                for (std::size_t j = 0; j < ia.data_size() && j < ib.data_size(); ++j) {
                    CHECK(ia.defaultApplied(j) == ib.defaultApplied(j)); CHECK(ia.hasValue(j) == ib.hasValue(j));
                    if (!ia.hasValue(j) || !ib.hasValue(j)) continue;                     // defaulted item without a default value: nothing to read
#if KWSEL == 0
                    CHECK(ia.get<int>(j) == ib.get<int>(j));
#else
                    CHECK(ia.get<std::string>(j) == ib.get<std::string>(j));
#endif
                }
            }
        }
    }
}

// quoted strings: the separator between (and after) quoted tokens is a blank, a TAB, a comma, or nothing at all in front of the slash
extern "C" void h_whole_quoted(void) {
    unsigned char c1 = nondet_uchar(), c2 = nondet_uchar(), s1 = nondet_uchar(), s2 = nondet_uchar();
    ASSUME(c1 >= 'A' && c1 <= 'Z' && c2 >= 'A' && c2 <= 'Z');
    ASSUME(s1 == ' ' || s1 == '\t' || s1 == ','); ASSUME(s2 == ' ' || s2 == '\t' || s2 == ',' || s2 == '\n');
    std::string q1 = "'M"; q1.push_back((char) c1); q1 += "'"; std::string q2 = "'N"; q2.push_back((char) c2); q2 += "'";
    const std::string A = std::string("GRIDUNIT\n ") + q1 + " " + q2 + " /\n";
    std::string B = std::string("GRIDUNIT\n") + q1; B.push_back((char) s1); B += q2; B.push_back((char) s2); B += "/\n";
    Opm::Parser parser(false);
    parser.addKeyword<Opm::ParserKeywords::EQLDIMS>(); parser.addKeyword<Opm::ParserKeywords::GRIDUNIT>();
    Outcome a = parse(parser, A), b = parse(parser, B);
    CHECK(!a.threw); CHECK(!b.threw);
    if (a.threw || b.threw) return;
    CHECK(a.deck.size() == 1 && b.deck.size() == 1);
    const auto& ra = a.deck[0].getRecord(0); const auto& rb = b.deck[0].getRecord(0);
    for (std::size_t i = 0; i < 2; ++i) { CHECK(ra.getItem(i).get<std::string>(0) == rb.getItem(i).get<std::string>(0)); CHECK(!rb.getItem(i).defaultApplied(0)); }
    CHECK(rb.getItem(0).get<std::string>(0)[1] == (char) c1 && rb.getItem(1).get<std::string>(0)[1] == (char) c2);
}
