EXPLANATION = ('C01 (lexical layer): Parser.cpp str::strip_comments / find_terminator / trim / fast_clean / del_after_first_slash and RawRecord.cpp splitSingleRecordString are executed on symbolic ASCII text; '
  'layout rewrites (padding, trailing comments, separator kind and run length, text after the slash) are shown to leave the cleaned text / token sequence unchanged, strip_comments is compared with a quote-aware reference; Parser::parseString as a whole is run on two layouts of the same keyword (real generated EQLDIMS / GRIDUNIT) and the two decks are compared item by item.')
BOUNDS = 'every 7-bit text of up to 4 bytes (thorough: 6) per line plus the inserted layout bytes (symbolic); two tokens of 2+1 bytes for the tokeniser; whole parser: record body of up to 2 (thorough: 3) 7-bit bytes for two keywords and four re-layouts'
OUTSIDE = 'size classes other than fixed one-record keywords, INCLUDE splitting, double/UDA token conversion, decks of several keywords; bytes >= 0x80 (the 7-bit classification tables are documented behaviour)'
ASSUMPTIONS = ['std::string/std::deque executed from libstdc++ headers']
def jobs(tier):
    n = 4 if tier == 'quick' else 6
    out = []
    for ent in ('h_strip_comments', 'h_clean_padding', 'h_clean_comment', 'h_clean_linewise', 'h_after_slash'):
        out.append(dict(name=ent[2:], src='h_layout.cpp', defs={'HN': n if ent != 'h_clean_linewise' else min(n, 4)}, entry=ent, fp='real', loopmax=400, maxsteps=4000000, bounds='text <= %d bytes' % n))
    out.append(dict(name='split_separators', src='h_layout.cpp', defs={'HN': 4}, entry='h_split_separators', fp='real', loopmax=400, maxsteps=4000000, bounds='tokens of 2 and 1 bytes, 3 symbolic separators'))
    out.append(dict(name='deck_name', src='h_layout.cpp', defs={'HN': 3 if tier == 'quick' else 4}, entry='h_deck_name', tus=['opm/common/utility/String.cpp'], fp='real', loopmax=400, maxsteps=4000000, bounds='text <= 3 bytes (thorough 4), any subset of letters in the other case'))
    STUS = ['opm/input/eclipse/Parser/ParserRecord.cpp', 'opm/input/eclipse/Parser/ParserItem.cpp', 'opm/input/eclipse/Parser/raw/RawRecord.cpp', 'opm/input/eclipse/Parser/raw/StarToken.cpp',
            'opm/input/eclipse/Parser/ParseContext.cpp', 'opm/input/eclipse/Parser/ErrorGuard.cpp', 'opm/input/eclipse/Deck/DeckRecord.cpp', 'opm/input/eclipse/Deck/DeckItem.cpp', 'opm/input/eclipse/Deck/UDAValue.cpp',
            'opm/input/eclipse/Units/UnitSystem.cpp', 'opm/input/eclipse/Units/Dimension.cpp', 'opm/common/utility/String.cpp', 'opm/common/OpmLog/KeywordLocation.cpp', 'opm/input/eclipse/Parser/ParserEnums.cpp',
            'opm/input/eclipse/Parser/InputErrorAction.cpp'] if False else None
    STUS = ['opm/input/eclipse/Parser/ParserRecord.cpp', 'opm/input/eclipse/Parser/ParserItem.cpp', 'opm/input/eclipse/Parser/raw/RawRecord.cpp', 'opm/input/eclipse/Parser/raw/StarToken.cpp',
            'opm/input/eclipse/Parser/ParseContext.cpp', 'opm/input/eclipse/Parser/ErrorGuard.cpp', 'opm/input/eclipse/Deck/DeckRecord.cpp', 'opm/input/eclipse/Deck/DeckItem.cpp', 'opm/input/eclipse/Deck/UDAValue.cpp',
            'opm/input/eclipse/Units/UnitSystem.cpp', 'opm/input/eclipse/Units/Dimension.cpp', 'opm/common/utility/String.cpp', 'opm/common/OpmLog/KeywordLocation.cpp', 'opm/input/eclipse/Parser/ParserEnums.cpp']
    for stri in (0, 1):
        for wd in ((1,) if tier == 'quick' and stri else (1, 0)):
            out.append(dict(name='scan_%s_%s' % ('str' if stri else 'int', 'dflt' if wd else 'nodflt'), src='h_scan.cpp', defs={'STRITEMS': stri, 'WITHDEF': wd}, entry='h_repeat_value,h_repeat_default', tus=STUS, fp='real',
                            loopmax=4000, maxsteps=60000000, bounds='4 %s items %s defaults; repeat counts 1..3; values: two symbolic %s' % ('string' if stri else 'int', 'with' if wd else 'without', 'letters' if stri else 'digits')))
    # whole parser: Parser::parseString on two layouts of the same keyword (TU list shared with the C20 whole-parser jobs)
    PT = ['opm/input/eclipse/Parser/%s.cpp' % n for n in ('raw/RawKeyword', 'raw/RawRecord', 'raw/StarToken', 'ParseContext', 'ErrorGuard', 'InputErrorAction', 'ParserKeyword', 'ParserRecord', 'ParserItem', 'ParserEnums')] + [
          'opm/input/eclipse/Deck/%s.cpp' % n for n in ('Deck', 'DeckKeyword', 'DeckRecord', 'DeckItem', 'DeckView', 'DeckTree', 'DeckValue', 'DeckOutput', 'DeckSection', 'UDAValue', 'FileDeck', 'ImportContainer')] + [
          'opm/input/eclipse/Units/%s.cpp' % n for n in ('UnitSystem', 'Dimension')] + [
          'opm/common/%s.cpp' % n for n in ('OpmLog/OpmLog', 'OpmLog/Logger', 'OpmLog/LogUtil', 'OpmLog/KeywordLocation', 'utility/OpmInputError', 'utility/String', 'utility/shmatch')] + [
          'opm/input/eclipse/Python/Python.cpp', 'opm/input/eclipse/Python/PythonInterp.cpp', '_build/ParserKeywords/E.cpp', '_build/ParserKeywords/G.cpp']
    for kw, kn in ((0, 'eqldims'), (1, 'gridunit')):
        for var in (1, 2, 3, 4):
            if tier == 'quick' and kw == 1 and var in (1, 4): continue
            out.append(dict(name='whole_%s_v%d' % (kn, var), src='h_whole.cpp', defs={'HN': 2 if tier == 'quick' else 3, 'KWSEL': kw, 'VAR': var}, entry='h_whole_layout', tus=PT, fp='real', loopmax=2000, maxsteps=80000000,
                            timeout=900 if tier == 'quick' else 7200, opts=['--ctors'],
                            bounds='Parser::parseString of %s with a body of <= %d arbitrary 7-bit bytes (no quote, slash, dash), layout variant %d' % (kn.upper(), 2 if tier == 'quick' else 3, var)))
    out.append(dict(name='whole_quoted_separators', src='h_whole.cpp', defs={'HN': 2, 'KWSEL': 1, 'VAR': 1}, entry='h_whole_quoted', tus=PT, fp='real', loopmax=2000, maxsteps=80000000, timeout=900 if tier == 'quick' else 7200, opts=['--ctors'],
                    bounds='GRIDUNIT with two quoted strings (symbolic letter each), separators blank / TAB / comma / line break (symbolic)'))
    return out
