EXPLANATION = ('C01 (lexical layer): Parser.cpp str::strip_comments / find_terminator / trim / fast_clean / del_after_first_slash and RawRecord.cpp splitSingleRecordString are executed on symbolic ASCII text; '
  'layout rewrites (padding, trailing comments, separator kind and run length, text after the slash) are shown to leave the cleaned text / token sequence unchanged, strip_comments is compared with a quote-aware reference.')
BOUNDS = 'every 7-bit text of up to 4 bytes (thorough: 6) per line plus the inserted layout bytes (symbolic); two tokens of 2+1 bytes for the tokeniser'
OUTSIDE = 'keyword recognition and size-class dispatch, INCLUDE/PATHS handling, keyword lookup after case folding, double/UDA token conversion, whole decks; bytes >= 0x80 (the 7-bit classification tables are documented behaviour)'
ASSUMPTIONS = ['std::string/std::deque executed from libstdc++ headers']
def jobs(tier):
    n = 4 if tier == 'quick' else 6
    out = []
    for ent in ('h_strip_comments', 'h_clean_padding', 'h_clean_comment', 'h_clean_linewise', 'h_after_slash'):
        out.append(dict(name=ent[2:], src='h_layout.cpp', defs={'HN': n if ent != 'h_clean_linewise' else min(n, 4)}, entry=ent, fp='real', loopmax=400, maxsteps=4000000, bounds='text <= %d bytes' % n))
    out.append(dict(name='split_separators', src='h_layout.cpp', defs={'HN': 4}, entry='h_split_separators', fp='real', loopmax=400, maxsteps=4000000, bounds='tokens of 2 and 1 bytes, 3 symbolic separators'))
    out.append(dict(name='deck_name', src='h_layout.cpp', defs={'HN': 3 if tier == 'quick' else 4}, entry='h_deck_name', tus=['opm/common/utility/String.cpp'], fp='real', loopmax=400, maxsteps=4000000, bounds='text <= 3 bytes (thorough 4), any subset of letters in the other case'))
    STUS = ['opm/input/eclipse/Parser/ParserRecord.cpp', 'opm/input/eclipse/Parser/ParserItem.cpp', 'opm/input/eclipse/Parser/raw/RawRecord.cpp', 'opm/input/eclipse/Parser/raw/StarToken.cpp',
            'opm/input/eclipse/Parser/ParseContext.cpp', 'opm/input/eclipse/Parser/ErrorGuard.cpp', 'opm/input/eclipse/Deck/DeckRecord.cpp', 'opm/input/eclipse/Deck/DeckItem.cpp', 'opm/input/eclipse/Deck/UDAValue.cpp',
            'opm/input/eclipse/Units/UnitSystem.cpp', 'opm/input/eclipse/Units/Dimension.cpp', 'opm/common/utility/String.cpp', 'opm/common/OpmLog/KeywordLocation.cpp', 'opm/input/eclipse/Parser/ParserEnums.cpp',
            'opm/input/eclipse/Parser/InputErrorAction.cpp'] if False else None
    STUS = ['opm/input/eclipse/Parser/ParserRecord.cpp', 'opm/input/eclipse/Parser/ParserItem.cpp', 'opm/input/eclipse/Parser/raw/RawRecord.cpp', 'opm/input/eclipse/Parser/raw/StarToken.cpp',
            'opm/input/eclipse/Parser/ParseContext.cpp', 'opm/input/eclipse/Parser/ErrorGuard.cpp', 'opm/input/eclipse/Deck/DeckRecord.cpp', 'opm/input/eclipse/Deck/DeckItem.cpp', 'opm/input/eclipse/Deck/UDAValue.cpp',
            'opm/input/eclipse/Units/UnitSystem.cpp', 'opm/input/eclipse/Units/Dimension.cpp', 'opm/common/utility/String.cpp', 'opm/common/OpmLog/KeywordLocation.cpp', 'opm/input/eclipse/Parser/ParserEnums.cpp']
    for stri in (0, 1):
        for wd in ((1,) if tier == 'quick' and stri else (1, 0)):
            out.append(dict(name='scan_%s_%s' % ('str' if stri else 'int', 'dflt' if wd else 'nodflt'), src='h_scan.cpp', defs={'STRITEMS': stri, 'WITHDEF': wd}, entry='h_repeat_value,h_repeat_default', tus=STUS, fp='real',
                            loopmax=4000, maxsteps=60000000, bounds='4 %s items %s defaults; repeat counts 1..3; values: two symbolic %s' % ('string' if stri else 'int', 'with' if wd else 'without', 'letters' if stri else 'digits')))
    return out
