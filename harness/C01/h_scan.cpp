// C01 (record level): ParserRecord::parse -> ParserItem::scan / scan_item<int|string> on RawRecords built from text: writing repeat counts
// (n*v, n*) versus writing the items out, and ending a record early versus trailing 1*, give the same DeckRecord.
#include <string>
#include <vector>
#include <verif.h>
#include <opm/input/eclipse/Parser/ParserRecord.hpp>
#include <opm/input/eclipse/Parser/ParserItem.hpp>
#include <opm/input/eclipse/Parser/ParseContext.hpp>
#include <opm/input/eclipse/Parser/ErrorGuard.hpp>
#include <opm/input/eclipse/Deck/DeckRecord.hpp>
#include <opm/input/eclipse/Deck/DeckItem.hpp>
#include <opm/input/eclipse/Units/UnitSystem.hpp>
#include <opm/common/OpmLog/KeywordLocation.hpp>
#include "/repo/opm/input/eclipse/Parser/raw/RawRecord.hpp"
using namespace Opm;
#ifndef STRITEMS
#define STRITEMS 0
#endif
static ParserRecord mkrecord(bool with_defaults) {
    ParserRecord r;
    const char* names[4] = { "A", "B", "C", "D" };
    for (int i = 0; i < 4; ++i) {
#if STRITEMS
        ParserItem it(names[i], ParserItem::itype::STRING); if (with_defaults) it.setDefault(std::string(1, char('p' + i)));
#else
        ParserItem it(names[i], ParserItem::itype::INT); if (with_defaults) it.setDefault(11 * (i + 1));
#endif
        r.addItem(it);
    }
    return r;
}
static char digit() { unsigned char c = nondet_uchar(); ASSUME(c >= '0' && c <= '9'); return (char) c; }
static char letter() { unsigned char c = nondet_uchar(); ASSUME(c >= 'A' && c <= 'Z'); return (char) c; }
static std::string mkvalue() {
#if STRITEMS
    return std::string(1, letter()) + std::string(1, letter());
#else
    return std::string(1, digit()) + std::string(1, digit());
#endif
}
struct Parsed { bool threw; std::vector<std::string> sval; std::vector<int> ival; std::vector<int> dflt; std::vector<int> hasv; };
struct Env { ParseContext ctx; ErrorGuard guard; UnitSystem us1 { UnitSystem::UnitType::UNIT_TYPE_METRIC }, us2 { UnitSystem::UnitType::UNIT_TYPE_METRIC }; };
static Env* ENV = nullptr;
static Parsed run(const ParserRecord& pr, const std::string& text) {
    Parsed out; out.threw = false;
    ParseContext& ctx = ENV->ctx; ErrorGuard& guard = ENV->guard; UnitSystem& us1 = ENV->us1; UnitSystem& us2 = ENV->us2;
    try {
        RawRecord raw(std::string_view(text), KeywordLocation{});
        DeckRecord rec = pr.parse(ctx, guard, raw, us1, us2, KeywordLocation{});
        for (size_t i = 0; i < rec.size(); ++i) {
            const DeckItem& it = rec.getItem(i);
            out.hasv.push_back(it.hasValue(0)); out.dflt.push_back(it.data_size() ? it.defaultApplied(0) : -1);
#if STRITEMS
            out.sval.push_back(it.hasValue(0) ? it.get<std::string>(0) : std::string("?"));
#else
            out.ival.push_back(it.hasValue(0) ? it.get<int>(0) : -12345);
#endif
        }
    } catch (const std::exception&) { out.threw = true; }
    return out;
}
static bool same(const Parsed& a, const Parsed& b) { return a.threw == b.threw && a.sval == b.sval && a.ival == b.ival && a.dflt == b.dflt && a.hasv == b.hasv; }

#ifndef WITHDEF
#define WITHDEF 1
#endif
extern "C" void h_repeat_value(void) {          // n*v  ==  v v ... v
    ParserRecord pr = mkrecord(WITHDEF); Env env; ENV = &env;      // input-independent objects first: built once, before the paths fork
    std::string v = mkvalue(), w = mkvalue();
    unsigned long n = nondet_ulong(); ASSUME(n >= 1 && n <= 3); n = verif_concretize(n, 3);
    std::string a = std::to_string(n) + "*" + v + " " + w, b;
    for (unsigned long i = 0; i < n; ++i) b += v + " ";
    b += w;
    Parsed pa = run(pr, a), pb = run(pr, b);
    CHECK(!pa.threw); CHECK(same(pa, pb));
#if !STRITEMS
    CHECK(pa.ival[0] == (v[0] - '0') * 10 + (v[1] - '0')); CHECK(pa.ival[n] == (w[0] - '0') * 10 + (w[1] - '0')); CHECK(pa.dflt[0] == 0 && pa.dflt[n] == 0);
#else
    CHECK(pa.sval[0] == v && pa.sval[n] == w);
#endif
    if (n < 3) CHECK(pa.dflt[3] == 1);            // the item after the last written one is defaulted
    // the repeat count as the last token of the record, and after a first value
    std::string c = std::to_string(n) + "*" + v, d, e = w + " " + c, f = w;
    for (unsigned long i = 0; i < n; ++i) { d += (i ? " " : "") + v; f += " " + v; }
    CHECK(same(run(pr, c), run(pr, d))); CHECK(same(run(pr, e), run(pr, f)));
}
extern "C" void h_repeat_default(void) {        // n*  ==  1* ... 1* ; early end == trailing 1*
    ParserRecord pr = mkrecord(WITHDEF); Env env; ENV = &env;
    std::string v = mkvalue();
    unsigned long n = nondet_ulong(); ASSUME(n >= 1 && n <= 3); n = verif_concretize(n, 3);
    std::string a = std::to_string(n) + "* " + v, b;
    for (unsigned long i = 0; i < n; ++i) b += "1* ";
    b += v;
    Parsed pa = run(pr, a), pb = run(pr, b);
    CHECK(!pa.threw); CHECK(same(pa, pb));
    for (unsigned long i = 0; i < n; ++i) { CHECK(pa.dflt[i] == 1); CHECK(pa.hasv[i] == (WITHDEF ? 1 : 0)); }
    CHECK(pa.dflt[n] == 0);
    // lone star == 1*
    CHECK(same(run(pr, "* " + v), run(pr, "1* " + v)));
    // ending the record early == writing the trailing defaults
    Parsed pe = run(pr, v), pt1 = run(pr, v + " 3*"), pt2 = run(pr, v + " 1* 1* 1*"), pt3 = run(pr, v + " 2*");
    CHECK(!pe.threw); CHECK(same(pe, pt1)); CHECK(same(pe, pt2)); CHECK(same(pe, pt3));
}
