// C01: the lexical layer of the parser (Parser.cpp str:: functions, RawRecord tokeniser) - layout rewrites leave the cleaned text / token
// sequence unchanged; strip_comments against a quote-aware reference.  Every ASCII text up to HN bytes.
#include "/repo/opm/input/eclipse/Parser/Parser.cpp"
#include "/repo/opm/input/eclipse/Parser/raw/RawRecord.cpp"
#include <verif.h>
#ifndef HN
#define HN 4
#endif
static bool is_sep(char c) { return c == 1 || c == ' ' || c == ',' || c == '\r' || c == '\n' || c == '\t' || c == '\v' || c == '\f'; }
static char anychar() { unsigned char c = nondet_uchar(); ASSUME(c < 128 && c != 0 && c != '\n'); return (char) c; }   // 7-bit text (the tables are 7-bit by design), one line
static std::string mktext(unsigned long& n) {
    n = nondet_ulong(); ASSUME(n <= HN); n = verif_concretize(n, HN);
    std::string s(n, ' '); for (unsigned long i = 0; i < n; ++i) s[i] = anychar();
    return s;
}
// strip_comments == cut at the first "--" outside balanced quotes
extern "C" void h_strip_comments(void) {
    char buf[HN + 1]; unsigned long n = nondet_ulong(); ASSUME(n <= HN);
    for (unsigned long i = 0; i < HN; ++i) buf[i] = anychar();
    buf[HN] = '\n';
    std::string_view in(buf, n), out = Opm::str::strip_comments(in);
    CHECK(out.data() == in.data() && out.size() <= in.size());
    unsigned long cut = n; char q = 0;
    for (unsigned long i = 0; i < n; ++i) {
        char c = buf[i];
        if (q) { if (c == q) q = 0; }
        else if (c == '\'' || c == '"') { bool closed = false; for (unsigned long j = i + 1; j < n; ++j) if (buf[j] == c) closed = true; if (!closed) break; q = c; }
        else if (c == '-' && i + 1 < n && buf[i + 1] == '-') { cut = i; break; }
    }
    CHECK(out.size() == cut);
}
// blanks / tabs around a line do not change the cleaned text
extern "C" void h_clean_padding(void) {
    unsigned long n; std::string s = mktext(n);
    char p1 = anychar(), p2 = anychar(); ASSUME(is_sep(p1) && is_sep(p2));
    std::string a = s + "\n", b = std::string(1, p1) + s + std::string(1, p2) + "\n";
    CHECK(Opm::str::fast_clean(a) == Opm::str::fast_clean(b));
}
// a comment appended after a line whose quotes are balanced does not change the cleaned text
extern "C" void h_clean_comment(void) {
    unsigned long n; std::string s = mktext(n);
    int nq1 = 0, nq2 = 0; for (char c : s) { if (c == '\'') ++nq1; if (c == '"') ++nq2; }
    ASSUME(nq1 == 0 && nq2 == 0 || (nq1 == 2 && nq2 == 0) || (nq1 == 0 && nq2 == 2));       // balanced, not interleaved
    ASSUME(n == 0 || s[n - 1] != '-');
    char j1 = anychar(), j2 = anychar();
    std::string a = s + "\n", b = s + "--" + std::string(1, j1) + std::string(1, j2) + "\n", c = s + " --\n";
    std::string ca = Opm::str::fast_clean(a);
    CHECK(ca == Opm::str::fast_clean(b)); CHECK(ca == Opm::str::fast_clean(c));
}
// cleaning is idempotent and line-wise: clean(l1 \n l2 \n) = clean(l1 \n) + clean(l2 \n)
extern "C" void h_clean_linewise(void) {
    unsigned long n; std::string s = mktext(n);
    unsigned long k = nondet_ulong(); ASSUME(k <= n); k = verif_concretize(k, n);
    std::string l1 = s.substr(0, k), l2 = s.substr(k);
    std::string both = Opm::str::fast_clean(l1 + "\n" + l2 + "\n");
    CHECK(both == Opm::str::fast_clean(l1 + "\n") + Opm::str::fast_clean(l2 + "\n"));
    CHECK(Opm::str::fast_clean(both) == both);
}
// text after the terminating slash is dropped; a slash inside quotes does not terminate
extern "C" void h_after_slash(void) {
    unsigned long n; std::string s = mktext(n);
    bool has_slash = false, has_quote = false; for (char c : s) { if (c == '/') has_slash = true; if (c == '\'' || c == '"') has_quote = true; }
    ASSUME(!has_slash && !has_quote);
    char j1 = anychar(), j2 = anychar(); ASSUME(j1 != '\'' && j1 != '"' && j2 != '\'' && j2 != '"');
    std::string a = s + "/" + std::string(1, j1) + std::string(1, j2) + "\n";
    std::string_view va(a.data(), a.size() - 1);
    std::string_view r = Opm::str::del_after_first_slash(va);
    CHECK(r.size() == n + 1 && r.data() == a.data());
    std::string q = "'" + s + "/'" + std::string(1, j1) + "/" + std::string(1, j2) + "\n";      // quoted slash is kept, the next one terminates
    std::string_view vq(q.data(), q.size() - 1);
    std::string_view rq = Opm::str::del_after_first_slash(vq);
    CHECK(rq.size() == (j1 == '/' ? n + 4 : n + 5));
}
// tokens do not depend on the kind or length of the separator run between them, nor on surrounding blanks
static std::vector<std::string> toks(const std::string& rec) { std::vector<std::string> v; for (auto t : Opm::splitSingleRecordString(std::string_view(rec))) v.emplace_back(t); return v; }
extern "C" void h_split_separators(void) {
    char a1 = anychar(), a2 = anychar(), b1 = anychar(); ASSUME(!is_sep(a1) && !is_sep(a2) && !is_sep(b1) && a1 != '\'' && a2 != '\'' && b1 != '\'');
    char s1 = anychar(), s2 = anychar(), s3 = anychar(); ASSUME(is_sep(s1) && is_sep(s2) && is_sep(s3));
    std::string A = std::string(1, a1) + std::string(1, a2), B(1, b1);
    std::vector<std::string> ref = toks(A + " " + B);
    CHECK(ref.size() == 2 && ref[0] == A && ref[1] == B);
    CHECK(toks(A + std::string(1, s1) + B) == ref);
    CHECK(toks(A + std::string(1, s1) + std::string(1, s2) + B) == ref);
    CHECK(toks(std::string(1, s3) + A + std::string(1, s1) + B + std::string(1, s2)) == ref);
    // a quoted token keeps its separators and quotes
    std::string Q = "'" + std::string(1, a1) + std::string(1, s1) + std::string(1, b1) + "'";
    std::vector<std::string> rq = toks(A + std::string(1, s2) + Q + std::string(1, s3) + B);
    CHECK(rq.size() == 3 && rq[0] == A && rq[1] == Q && rq[2] == B);
}
// keyword-name case: the deck name is the upper-cased first word, whatever the case it was typed in
extern "C" void h_deck_name(void) {
    unsigned long n; std::string s = mktext(n);
    std::string t = s;
    for (unsigned long i = 0; i < n; ++i) {
        if (t[i] >= 'A' && t[i] <= 'Z' && nondet_bool()) t[i] = (char) (t[i] + 32);          // any subset of the letters typed in lower case
        else if (t[i] >= 'a' && t[i] <= 'z' && nondet_bool()) t[i] = (char) (t[i] - 32);
    }
    std::string a = Opm::str::make_deck_name(s), b = Opm::str::make_deck_name(t);
    CHECK(a == b);
    unsigned long k = 0; while (k < n && !is_sep(s[k])) ++k;
    CHECK(a.size() == k);
    for (unsigned long i = 0; i < k; ++i) CHECK(a[i] == ((s[i] >= 'a' && s[i] <= 'z') ? (char) (s[i] - 32) : s[i]));
}
