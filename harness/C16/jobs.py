EXPLANATION = ('C16: every arithmetic operator and math function of Opm::DenseAd::Evaluation (each unrolled specialisation 1..12, the generic '
  'template at 13..16 and the dynamically sized variant) is executed symbolically with symbolic value and derivative slots and compared, '
  'slot by slot, with an independent dual-number rule table.')
BOUNDS = 'sizes: static 1..12 (specialisations), generic 13..16, dynamic with 1..4 derivatives (quick: a subset of the generic/dynamic sizes); one operator application per obligation; all real operand values'
OUTSIDE = 'expression trees deeper than one operator, IEEE rounding / NaN tie-breaking of min/max/abs at equal operands, libm numerics (functions are uninterpreted symbols)'
ASSUMPTIONS = ['libm functions are uninterpreted (same argument, same result); sqrt(x)^2 = x assumed where the oracle needs it',
               'operands at which the result is not differentiable or not defined (v = 0 for division, |x| >= 1 for asin/acos, equal operands of min/max, abs(0)) are excluded by assumption']

ENTRIES = ['h_const','h_var','h_assign_scalar','h_copy','h_add_ee','h_add_es','h_add_se','h_addeq_ee','h_addeq_es','h_sub_ee','h_sub_es','h_sub_se','h_subeq_ee','h_subeq_es','h_neg',
           'h_mul_ee','h_mul_es','h_mul_se','h_muleq_ee','h_muleq_es','h_div_ee','h_div_es','h_div_se','h_diveq_ee','h_diveq_es','h_self_mul','h_self_div','h_self_add','h_self_sub','h_cmp','h_abs','h_min_ee','h_max_ee','h_min_se','h_max_se',
           'h_sin','h_cos','h_tan','h_sinh','h_cosh','h_exp','h_atan','h_log','h_log10','h_sqrt','h_asin','h_acos','h_asinh','h_acosh','h_atan2_ee','h_atan2_es','h_pow_es','h_pow_se','h_pow_ee']

def jobs(tier):
    out = []
    static = list(range(1, 13)) + ([13, 16] if tier == 'quick' else [13, 14, 15, 16])
    dyn = [2, 4] if tier == 'quick' else [1, 2, 3, 4, 6]
    for n in static:
        out.append(dict(name='ad_static_%02d' % n, src='h_ad.cpp', defs={'NV': n}, entry=','.join(ENTRIES), fp='real', loopmax=400,
                        bounds='Evaluation<double,%d>: %d entry points, all real operands' % (n, len(ENTRIES))))
    for n in dyn:
        out.append(dict(name='ad_dynamic_%02d' % n, src='h_ad.cpp', defs={'NV': n, 'DYN': 1}, entry=','.join(ENTRIES), fp='real', loopmax=400,
                        bounds='Evaluation<double,DynamicSize,4> with %d derivatives' % n))
    return out
