// C16: every operator / math function of DenseAd::Evaluation<double, NV> (or the dynamic variant with -DDYN)
// against an independent dual-number rule table; one entry point per operation, one assertion per result slot.
#include <cmath>
#include <opm/material/densead/Evaluation.hpp>
#include <opm/material/densead/Math.hpp>
#include <verif.h>

#ifndef NV
#define NV 3
#endif
#ifdef DYN
typedef Opm::DenseAd::Evaluation<double, Opm::DenseAd::DynamicSize, 4u> E;
static E mk() { E e(NV); e.setValue(verif_nondet_real()); for (int i = 0; i < NV; ++i) e.setDerivative(i, verif_nondet_real()); return e; }
static E mkconst(double c) { return E::createConstant(NV, c); }
static E mkvar(double c, int p) { return E::createVariable(NV, c, p); }
#else
typedef Opm::DenseAd::Evaluation<double, NV> E;
static E mk() { E e; e.setValue(verif_nondet_real()); for (int i = 0; i < NV; ++i) e.setDerivative(i, verif_nondet_real()); return e; }
static E mkconst(double c) { return E::createConstant(c); }
static E mkvar(double c, int p) { return E::createVariable(c, p); }
#endif
#define U(i) u.derivative(i)
#define Vd(i) v.derivative(i)
#define R(i) r.derivative(i)
#define FORI for (int i = 0; i < NV; ++i)
#define SZ CHECK(r.size() == NV)
#define CEQ(a, b) CHECK(EQ((a), (b)))
#define H(name) extern "C" void name(void)

// ---- construction
H(h_const)  { double c = verif_nondet_real(); E r = mkconst(c); SZ; CEQ(r.value(), c); FORI CEQ(R(i), 0.0); }
H(h_var)    { double c = verif_nondet_real(); for (int p = 0; p < NV; ++p) { E r = mkvar(c, p); CEQ(r.value(), c); FORI CEQ(R(i), (i == p ? 1.0 : 0.0)); } }
H(h_assign_scalar) { E r = mk(); double c = verif_nondet_real(); r = c; SZ; CEQ(r.value(), c); FORI CEQ(R(i), 0.0); }
H(h_copy)   { E u = mk(); E r(u); SZ; CEQ(r.value(), u.value()); FORI CEQ(R(i), U(i)); E w = mk(); w = u; CEQ(w.value(), u.value()); FORI CEQ(w.derivative(i), U(i)); }

// ---- + -
H(h_add_ee) { E u = mk(), v = mk(); E r = u + v; SZ; CEQ(r.value(), u.value() + v.value()); FORI CEQ(R(i), U(i) + Vd(i)); }
H(h_add_es) { E u = mk(); double c = verif_nondet_real(); E r = u + c; SZ; CEQ(r.value(), u.value() + c); FORI CEQ(R(i), U(i)); }
H(h_add_se) { E u = mk(); double c = verif_nondet_real(); E r = c + u; SZ; CEQ(r.value(), u.value() + c); FORI CEQ(R(i), U(i)); }
H(h_addeq_ee) { E u = mk(), v = mk(); E r = u; r += v; SZ; CEQ(r.value(), u.value() + v.value()); FORI CEQ(R(i), U(i) + Vd(i)); }
H(h_addeq_es) { E u = mk(); double c = verif_nondet_real(); E r = u; r += c; CEQ(r.value(), u.value() + c); FORI CEQ(R(i), U(i)); }
H(h_sub_ee) { E u = mk(), v = mk(); E r = u - v; SZ; CEQ(r.value(), u.value() - v.value()); FORI CEQ(R(i), U(i) - Vd(i)); }
H(h_sub_es) { E u = mk(); double c = verif_nondet_real(); E r = u - c; SZ; CEQ(r.value(), u.value() - c); FORI CEQ(R(i), U(i)); }
H(h_sub_se) { E u = mk(); double c = verif_nondet_real(); E r = c - u; SZ; CEQ(r.value(), c - u.value()); FORI CEQ(R(i), -U(i)); }
H(h_subeq_ee) { E u = mk(), v = mk(); E r = u; r -= v; CEQ(r.value(), u.value() - v.value()); FORI CEQ(R(i), U(i) - Vd(i)); }
H(h_subeq_es) { E u = mk(); double c = verif_nondet_real(); E r = u; r -= c; CEQ(r.value(), u.value() - c); FORI CEQ(R(i), U(i)); }
H(h_neg)    { E u = mk(); E r = -u; SZ; CEQ(r.value(), -u.value()); FORI CEQ(R(i), -U(i)); }

// ---- * /
H(h_mul_ee) { E u = mk(), v = mk(); E r = u * v; SZ; CEQ(r.value(), u.value() * v.value()); FORI CEQ(R(i), U(i) * v.value() + u.value() * Vd(i)); }
H(h_mul_es) { E u = mk(); double c = verif_nondet_real(); E r = u * c; SZ; CEQ(r.value(), u.value() * c); FORI CEQ(R(i), U(i) * c); }
H(h_mul_se) { E u = mk(); double c = verif_nondet_real(); E r = c * u; SZ; CEQ(r.value(), u.value() * c); FORI CEQ(R(i), U(i) * c); }
H(h_muleq_ee) { E u = mk(), v = mk(); E r = u; r *= v; CEQ(r.value(), u.value() * v.value()); FORI CEQ(R(i), U(i) * v.value() + u.value() * Vd(i)); }
H(h_muleq_es) { E u = mk(); double c = verif_nondet_real(); E r = u; r *= c; CEQ(r.value(), u.value() * c); FORI CEQ(R(i), U(i) * c); }
H(h_div_ee) { E u = mk(), v = mk(); ASSUME(v.value() != 0.0); E r = u / v; SZ; CEQ(r.value() * v.value(), u.value());
              FORI CEQ(R(i) * v.value() * v.value(), U(i) * v.value() - u.value() * Vd(i)); }
H(h_div_es) { E u = mk(); double c = verif_nondet_real(); ASSUME(c != 0.0); E r = u / c; SZ; CEQ(r.value() * c, u.value()); FORI CEQ(R(i) * c, U(i)); }
H(h_div_se) { E v = mk(); double c = verif_nondet_real(); ASSUME(v.value() != 0.0); E r = c / v; SZ; CEQ(r.value() * v.value(), c);
              FORI CEQ(R(i) * v.value() * v.value(), -c * Vd(i)); }
H(h_diveq_ee) { E u = mk(), v = mk(); ASSUME(v.value() != 0.0); E r = u; r /= v; CEQ(r.value() * v.value(), u.value());
              FORI CEQ(R(i) * v.value() * v.value(), U(i) * v.value() - u.value() * Vd(i)); }
// compound assignment with the object itself as right-hand side (x *= x, x /= x, x += x, x -= x): the operand must be read before it is overwritten
H(h_self_mul) { E u = mk(); E r = u; r *= r; CEQ(r.value(), u.value() * u.value()); FORI CEQ(R(i), 2 * u.value() * U(i)); }
H(h_self_div) { E u = mk(); ASSUME(u.value() != 0.0); E r = u; r /= r; CEQ(r.value(), 1.0); FORI CEQ(R(i), 0.0); }
H(h_self_add) { E u = mk(); E r = u; r += r; CEQ(r.value(), 2 * u.value()); FORI CEQ(R(i), 2 * U(i)); }
H(h_self_sub) { E u = mk(); E r = u; r -= r; CEQ(r.value(), 0.0); FORI CEQ(R(i), 0.0); }
H(h_diveq_es) { E u = mk(); double c = verif_nondet_real(); ASSUME(c != 0.0); E r = u; r /= c; CEQ(r.value() * c, u.value()); FORI CEQ(R(i) * c, U(i)); }

// ---- comparisons (on values)
H(h_cmp) { E u = mk(), v = mk(); double c = verif_nondet_real();
  CHECK((u < v) == (u.value() < v.value())); CHECK((u <= v) == (u.value() <= v.value())); CHECK((u > v) == (u.value() > v.value())); CHECK((u >= v) == (u.value() >= v.value()));
  CHECK((u < c) == (u.value() < c)); CHECK((u <= c) == (u.value() <= c)); CHECK((u > c) == (u.value() > c)); CHECK((u >= c) == (u.value() >= c));
  bool same = u.value() == v.value(); FORI same = same && (U(i) == Vd(i));
  CHECK((u == v) == same); CHECK((u != v) == !same); CHECK((u == c) == (u.value() == c)); CHECK((u != c) == (u.value() != c)); }

// ---- abs min max
H(h_abs) { E u = mk(); ASSUME(u.value() != 0.0); E r = Opm::DenseAd::abs(u); double s = u.value() > 0 ? 1.0 : -1.0; CEQ(r.value(), s * u.value()); FORI CEQ(R(i), s * U(i)); }
H(h_min_ee) { E u = mk(), v = mk(); ASSUME(u.value() != v.value()); E r = Opm::DenseAd::min(u, v); bool f = u.value() < v.value(); CEQ(r.value(), (f ? u.value() : v.value())); FORI CEQ(R(i), (f ? U(i) : Vd(i))); }
H(h_max_ee) { E u = mk(), v = mk(); ASSUME(u.value() != v.value()); E r = Opm::DenseAd::max(u, v); bool f = u.value() > v.value(); CEQ(r.value(), (f ? u.value() : v.value())); FORI CEQ(R(i), (f ? U(i) : Vd(i))); }
H(h_min_se) { E u = mk(); double c = verif_nondet_real(); ASSUME(u.value() != c); E r = Opm::DenseAd::min(c, u); E q = Opm::DenseAd::min(u, c); bool f = c < u.value();
              CEQ(r.value(), (f ? c : u.value())); FORI CEQ(R(i), (f ? 0.0 : U(i))); CEQ(q.value(), r.value()); FORI CEQ(q.derivative(i), R(i)); }
H(h_max_se) { E u = mk(); double c = verif_nondet_real(); ASSUME(u.value() != c); E r = Opm::DenseAd::max(c, u); E q = Opm::DenseAd::max(u, c); bool f = c > u.value();
              CEQ(r.value(), (f ? c : u.value())); FORI CEQ(R(i), (f ? 0.0 : U(i))); CEQ(q.value(), r.value()); FORI CEQ(q.derivative(i), R(i)); }

// ---- math functions: value = libm(value) (same uninterpreted symbol), derivative slot = f'(u) * u'_i
#define FN1(name, fn, pre, dexpr) H(name) { E u = mk(); double x = u.value(); ASSUME(pre); E r = Opm::DenseAd::fn(u); SZ; CEQ(r.value(), std::fn(x)); FORI CEQ(R(i), (dexpr) * U(i)); }
FN1(h_sin, sin, true, std::cos(x))
FN1(h_cos, cos, true, -std::sin(x))
FN1(h_tan, tan, true, 1.0 + std::tan(x) * std::tan(x))
FN1(h_sinh, sinh, true, std::cosh(x))
FN1(h_cosh, cosh, true, std::sinh(x))
FN1(h_exp, exp, true, std::exp(x))
H(h_atan) { E u = mk(); double x = u.value(); E r = Opm::DenseAd::atan(u); SZ; CEQ(r.value(), std::atan(x)); FORI CEQ(R(i) * (1.0 + x * x), U(i)); }
H(h_log)  { E u = mk(); double x = u.value(); ASSUME(x > 0); E r = Opm::DenseAd::log(u); SZ; CEQ(r.value(), std::log(x)); FORI CEQ(R(i) * x, U(i)); }
H(h_log10){ E u = mk(); double x = u.value(); ASSUME(x > 0); E r = Opm::DenseAd::log10(u); SZ; CEQ(r.value(), std::log10(x));
            // d/dx log10 x = 1/(x ln 10) = log10(e)/x ; log10(e) to 1e-15
            FORI { double lhs = R(i) * x, ref = 0.43429448190325182765 * U(i), d = lhs - ref, m = ref < 0 ? -ref : ref; CHECK(d <= 1e-15 * m && -d <= 1e-15 * m); } }
H(h_sqrt) { E u = mk(); double x = u.value(); ASSUME(x > 0); E r = Opm::DenseAd::sqrt(u); SZ; double s = std::sqrt(x); ASSUME(s > 0 && s * s == x); CEQ(r.value(), s); FORI CEQ(R(i) * 2.0 * s, U(i)); }
H(h_asin) { E u = mk(); double x = u.value(); ASSUME(x > -1 && x < 1); E r = Opm::DenseAd::asin(u); SZ; double s = std::sqrt(1.0 - x * x); ASSUME(s > 0); CEQ(r.value(), std::asin(x)); FORI CEQ(R(i) * s, U(i)); }
H(h_acos) { E u = mk(); double x = u.value(); ASSUME(x > -1 && x < 1); E r = Opm::DenseAd::acos(u); SZ; double s = std::sqrt(1.0 - x * x); ASSUME(s > 0); CEQ(r.value(), std::acos(x)); FORI CEQ(R(i) * s, -U(i)); }
H(h_asinh){ E u = mk(); double x = u.value(); E r = Opm::DenseAd::asinh(u); SZ; double s = std::sqrt(x * x + 1.0); ASSUME(s > 0); CEQ(r.value(), std::asinh(x)); FORI CEQ(R(i) * s, U(i)); }
H(h_acosh){ E u = mk(); double x = u.value(); ASSUME(x > 1); E r = Opm::DenseAd::acosh(u); SZ; double s = std::sqrt(x * x - 1.0); ASSUME(s > 0); CEQ(r.value(), std::acosh(x)); FORI CEQ(R(i) * s, U(i)); }
H(h_atan2_ee) { E u = mk(), v = mk(); double x = u.value(), y = v.value(); ASSUME(y != 0.0); E r = Opm::DenseAd::atan2(u, v); SZ; CEQ(r.value(), std::atan2(x, y));
                FORI CEQ(R(i) * (x * x + y * y), U(i) * y - x * Vd(i)); }
H(h_atan2_es) { E u = mk(); double x = u.value(), y = verif_nondet_real(); ASSUME(y != 0.0); E r = Opm::DenseAd::atan2(u, y); SZ; CEQ(r.value(), std::atan2(x, y));
                FORI CEQ(R(i) * (x * x + y * y), U(i) * y); }
// pow: three operand forms
H(h_pow_es) { E u = mk(); double x = u.value(), e = verif_nondet_real(); E r = Opm::DenseAd::pow(u, e); SZ;
              if (x == 0.0) { CEQ(r.value(), 0.0); FORI CEQ(R(i), 0.0); }
              else { CEQ(r.value(), std::pow(x, e)); FORI CEQ(R(i) * x, std::pow(x, e) * e * U(i)); } }
H(h_pow_se) { E v = mk(); double b = verif_nondet_real(), y = v.value(); E r = Opm::DenseAd::pow(b, v); SZ;
              if (b == 0.0) { CEQ(r.value(), 0.0); FORI CEQ(R(i), 0.0); }
              else { double val = std::exp(std::log(b) * y); CEQ(r.value(), val); FORI CEQ(R(i), std::log(b) * val * Vd(i)); } }
H(h_pow_ee) { E u = mk(), v = mk(); double f = u.value(), g = v.value(); E r = Opm::DenseAd::pow(u, v); SZ;
              if (f == 0.0) { CEQ(r.value(), 0.0); FORI CEQ(R(i), 0.0); }
              else { double p = std::pow(f, g); CEQ(r.value(), p); FORI CEQ(R(i) * f, (g * U(i) + std::log(f) * Vd(i) * f) * p); } }
