// C04 (narrow, second handler): WELTARG run in ACTION mode on '?' against the written-out keyword in normal mode, with one of the matched
// wells SHUT at the application step: the action must change the target of a shut well exactly as the inlined keyword does.
#include <string>
#include <vector>
#include <memory>
#include <set>
#include <unordered_map>
#define private public
#define protected public
#include <opm/input/eclipse/Schedule/Schedule.hpp>
#include <opm/input/eclipse/Schedule/ScheduleState.hpp>
#undef private
#undef protected
#include "/repo/opm/input/eclipse/Schedule/Well/WellKeywordHandlers.cpp"
#include "../C03/two_step.h"
#include <opm/input/eclipse/Schedule/UDQ/UDQActive.hpp>
static DeckKeyword weltarg(const char* well, double v) {
    DeckKeyword kw(KeywordLocation{}, "WELTARG");
    std::vector<DeckItem> items; items.push_back(sitem("WELL", well)); items.push_back(sitem("CMODE", "ORAT"));
    { DeckItem it("NEW_VALUE", UDAValue(), { Dimension(1.0) }, { Dimension(1.0) }); it.push_back(UDAValue(v)); items.push_back(it); }
    kw.addRecord(DeckRecord(std::move(items)));
    return kw;
}
static Schedule* prepared(int slot, bool shut2) {
    Schedule* s = two_step_schedule(slot);
    new (&s->m_static.m_unit_system) UnitSystem(UnitSystem::newMETRIC());
    for (int step = 0; step < 2; ++step) s->snapshots[step].udq_active.update(UDQActive());
    if (shut2) { auto w = s->snapshots[1].wells.get("P2"); w.updateStatus(Well::Status::SHUT); s->snapshots[1].wells.update(std::move(w)); }
    return s;
}
static double orat(const Schedule* s, int step, const char* w) { const auto& r = s->snapshots[step].wells.get(w).getProductionProperties().OilRate; return r.is<double>() ? r.get<double>() : -1.0; }
extern "C" void h_action_weltarg(void) {
    const double v = verif_nondet_real(); ASSUME(v > 0);
    const bool shut2 = nondet_bool();
    Schedule* A = prepared(0, shut2);
    { DeckKeyword kw = weltarg("?", v); Ctx c; { Action::Result r(true); r.wells({ "P1", "P2" }); c.matches = r.matches(); } HandlerContext hc = mkcontext(*A, kw, c, true); handleWELTARG(hc); }
    Schedule* B = prepared(1, shut2);
    for (const char* w : { "P1", "P2" }) { DeckKeyword kw = weltarg(w, v); Ctx c; HandlerContext hc = mkcontext(*B, kw, c, false); handleWELTARG(hc); }
    for (int step = 0; step < 2; ++step) for (const char* w : { "P1", "P2" }) CEQ(orat(A, step, w), orat(B, step, w));
    CEQ(orat(A, 1, "P1"), v); CEQ(orat(A, 1, "P2"), v);                      // open or shut: the target is what the action set
    CHECK(A->snapshots[1].wells.get("P2").getStatus() == B->snapshots[1].wells.get("P2").getStatus());
}
