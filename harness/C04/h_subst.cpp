// C04 (narrow): the two per-keyword ingredients of "applying an ACTIONX equals inlining its keywords, earlier steps are immutable" that can
// be separated from a whole Schedule: a keyword handler run in ACTION mode on a record that names its wells with '?' (the wells the
// condition matched) leaves the schedule exactly as the same handler run in normal mode on the record written out for each matched well;
// and in both modes report step 0 answers as before.  Handler: WEFAC (real handler, real HandlerContext, two-step history as in C03).
#include <string>
#include <vector>
#include <memory>
#include <set>
#include <unordered_map>
#define private public
#define protected public
#include <opm/input/eclipse/Schedule/Schedule.hpp>
#include <opm/input/eclipse/Schedule/ScheduleState.hpp>
#undef private
#undef protected
#include "/repo/opm/input/eclipse/Schedule/Well/WellPropertiesKeywordHandlers.cpp"
#include "../C03/two_step.h"
static DeckKeyword wefac(const char* well, double ef) {
    DeckKeyword kw(KeywordLocation{}, "WEFAC");
    std::vector<DeckItem> items; items.push_back(sitem("WELLNAME", well)); items.push_back(ditem("EFFICIENCY_FACTOR", ef)); kw.addRecord(DeckRecord(std::move(items)));
    return kw;
}
extern "C" void h_action_subst(void) {
    const double ef = verif_nondet_real(); ASSUME(ef > 0 && ef < 1);
    const bool m1 = nondet_bool(), m2 = nondet_bool(); ASSUME(m1 || m2);                  // the wells the condition matched: any non-empty subset of {P1, P2}
    // (a) action mode: WEFAC '?' ef   with the matching wells substituted for '?'
    Schedule* A = two_step_schedule(0);
    {
        DeckKeyword kw = wefac("?", ef);
        Ctx c; { std::vector<std::string> w; if (m1) w.push_back("P1"); if (m2) w.push_back("P2"); Action::Result r(true); r.wells(w); c.matches = r.matches(); }
        HandlerContext hc = mkcontext(*A, kw, c, true);
        handleWEFAC(hc);
    }
    // (b) the same keyword written out per matched well, normal mode
    Schedule* B = two_step_schedule(1);
    for (int k = 0; k < 2; ++k) {
        if (!(k == 0 ? m1 : m2)) continue;
        DeckKeyword kw = wefac(k == 0 ? "P1" : "P2", ef);
        Ctx c; HandlerContext hc = mkcontext(*B, kw, c, false);
        handleWEFAC(hc);
    }
    for (int step = 0; step < 2; ++step) for (const char* w : { "P1", "P2" }) {
        CEQ(A->snapshots[step].wells.get(w).getEfficiencyFactor(), B->snapshots[step].wells.get(w).getEfficiencyFactor());
        CHECK(A->snapshots[step].wellgroup_events().hasEvent(w, ScheduleEvents::WELLGROUP_EFFICIENCY_UPDATE) == B->snapshots[step].wellgroup_events().hasEvent(w, ScheduleEvents::WELLGROUP_EFFICIENCY_UPDATE));
    }
    CHECK(A->snapshots[1].events().hasEvent(ScheduleEvents::WELLGROUP_EFFICIENCY_UPDATE) == B->snapshots[1].events().hasEvent(ScheduleEvents::WELLGROUP_EFFICIENCY_UPDATE));
    // the step the action is applied at sees it for exactly the matched wells; report step 0 is untouched in both modes
    CEQ(A->snapshots[1].wells.get("P1").getEfficiencyFactor(), m1 ? ef : 1.0); CEQ(A->snapshots[1].wells.get("P2").getEfficiencyFactor(), m2 ? ef : 1.0);
    CEQ(A->snapshots[0].wells.get("P1").getEfficiencyFactor(), 1.0); CEQ(A->snapshots[0].wells.get("P2").getEfficiencyFactor(), 1.0);
    CHECK(!A->snapshots[0].events().hasEvent(ScheduleEvents::WELLGROUP_EFFICIENCY_UPDATE));
}
