import importlib.util, os
_sp = importlib.util.spec_from_file_location('c03jobs', os.path.join(os.path.dirname(os.path.dirname(os.path.abspath(__file__))), 'C03', 'jobs.py')); _m = importlib.util.module_from_spec(_sp); _sp.loader.exec_module(_m)
EXPLANATION = ('C04 (narrow): a real keyword handler (WEFAC) run in ACTION mode on a record that names its wells with "?" - the wells the condition matched - against the same handler run in '
  'normal mode on the record written out for each matched well, on two copies of a two-step history (real HandlerContext, real ScheduleStates sharing their objects as create_next shares them).')
BOUNDS = 'two report steps, two wells, every non-empty set of matched wells, symbolic efficiency factor'
OUTSIDE = ('the larger part of the property: Schedule::applyAction itself (cutting the snapshots back, appending the keywords to the schedule block, re-iterating the later report steps), every other '
  'keyword allowed in ACTIONX, per-report-step semantics of WPIMULT/automatic shut-in, sequences of actions')
ASSUMPTIONS = ['the Schedule object is laid out by the harness (snapshots and action_wgnames only)', 'doubles as reals']
def jobs(tier):
    return [dict(name='action_subst_wefac', src='h_subst.cpp', defs={}, entry='h_action_subst', tus=_m.HT, fp='real', loopmax=100000, maxsteps=400000000, timeout=1500, opts=['--ctors'], bounds=BOUNDS),
            dict(name='action_subst_weltarg', src='h_subst2.cpp', defs={}, entry='h_action_weltarg', tus=_m.HT + ['opm/input/eclipse/Schedule/Well/WellTestState.cpp'], fp='real', loopmax=100000, maxsteps=400000000, timeout=1500, opts=['--ctors'],
                 bounds='WELTARG ORAT on two matched wells, one of them open or shut at the application step, symbolic target')]
