// C13 (second part): block-centred input (DX/DY/DZ/TOPS through the real generators) versus the corner-point grid it produces, the cached
// activeVolume() with inactive cells and non-uniform cells, left-handed cells, and the EGRID reader's index maps.
#include <array>
#include <vector>
#include <cmath>
#include <string>
#include <optional>
#include <map>
#include <filesystem>
#include <fstream>
#include <unordered_set>
#include <verif.h>
#define private public
#define protected public
#include <opm/input/eclipse/EclipseState/Grid/EclipseGrid.hpp>
#include <opm/io/eclipse/EGrid.hpp>
#undef private
#undef protected
#include <opm/common/utility/numeric/calculateCellVol.hpp>
#define CEQ(a, b) CHECK(EQ((a), (b)))
#ifndef GNX
#define GNX 2
#define GNY 2
#define GNZ 2
#endif
// DXV/DYV/DZV-style spacing expanded to per-cell DX/DY/DZ, uniform TOPS: the generated COORD/ZCORN grid must reproduce the block geometry
extern "C" void h_blockcentred(void) {
    double dxv[GNX], dyv[GNY], dzv[GNZ], top = verif_nondet_real();
    for (auto& v : dxv) { v = verif_nondet_real(); ASSUME(v > 0); } for (auto& v : dyv) { v = verif_nondet_real(); ASSUME(v > 0); } for (auto& v : dzv) { v = verif_nondet_real(); ASSUME(v > 0); }
    const int N = GNX * GNY * GNZ;
    std::vector<double> dx(N), dy(N), dz(N), tops(GNX * GNY, top);
    for (int k = 0; k < GNZ; ++k) for (int j = 0; j < GNY; ++j) for (int i = 0; i < GNX; ++i) { int g = i + GNX * (j + GNY * k); dx[g] = dxv[i]; dy[g] = dyv[j]; dz[g] = dzv[k]; }
    Opm::EclipseGrid helper(Opm::GridDims(GNX, GNY, GNZ));
    std::vector<double> coord = helper.makeCoordDxDyDzTops(dx, dy, dz, tops), zcorn = helper.makeZcornDzTops(dz, tops);
    CHECK(coord.size() == (GNX + 1) * (GNY + 1) * 6 && zcorn.size() == (size_t) N * 8);
    std::vector<int> act(N, 1);
#ifdef INACTIVE
    act[INACTIVE] = 0; act[0] = 0;
#endif
    Opm::EclipseGrid g({ GNX, GNY, GNZ }, coord, zcorn, act.data());
    const std::vector<double>& av = g.activeVolume();
    CHECK(av.size() == g.getNumActive());
    double x0 = 0, y0, z0;
    for (int i = 0; i < GNX; ++i) { y0 = 0; for (int j = 0; j < GNY; ++j) { z0 = top; for (int k = 0; k < GNZ; ++k) {
        size_t n = g.getGlobalIndex(i, j, k); const double vol = dxv[i] * dyv[j] * dzv[k];
        CEQ(g.getCellVolume(n), vol);
        if (g.cellActive(n)) CEQ(av[g.activeIndex(n)], vol);
        auto c = g.getCellCenter(n); CEQ(c[0], x0 + dxv[i] / 2); CEQ(c[1], y0 + dyv[j] / 2); CEQ(c[2], z0 + dzv[k] / 2);
        CEQ(g.getCellDepth(n), z0 + dzv[k] / 2); CEQ(g.getCellThickness(n), dzv[k]);
        auto d = g.getCellDims(n); CHECK(d[0] >= 0 && d[1] >= 0); CEQ(d[0] * d[0], dxv[i] * dxv[i]); CEQ(d[1] * d[1], dyv[j] * dyv[j]); CEQ(d[2], dzv[k]);
        z0 += dzv[k]; } y0 += dyv[j]; } x0 += dxv[i]; }
}
// a mirrored (left-handed) box still has the positive volume dx*dy*dz
extern "C" void h_cellvol_mirrored(void) {
    double x0 = verif_nondet_real(), y0 = verif_nondet_real(), z0 = verif_nondet_real(), dx = verif_nondet_real(), dy = verif_nondet_real(), dz = verif_nondet_real();
    ASSUME(dx > 0 && dy > 0 && dz > 0);
    std::array<double, 8> X, Y, Z;
    for (int n = 0; n < 8; ++n) { X[n] = x0 - (n & 1) * dx; Y[n] = y0 + ((n >> 1) & 1) * dy; Z[n] = z0 + ((n >> 2) & 1) * dz; }
    double v = calculateCellVol(X, Y, Z); CEQ(v, dx * dy * dz);
    for (int n = 0; n < 8; ++n) { X[n] = x0 + (n & 1) * dx; Y[n] = y0 - ((n >> 1) & 1) * dy; }
    CEQ(calculateCellVol(X, Y, Z), dx * dy * dz);
}
// EGRID reader index maps on an object laid out by the harness (dimensions ENX x ENY x ENZ, every ACTNUM)
#ifndef ENX
#define ENX 3
#define ENY 2
#define ENZ 2
#endif
alignas(16) static unsigned char egrid_storage[sizeof(Opm::EclIO::EGrid)];
extern "C" void h_egrid_index(void) {
    using Opm::EclIO::EGrid;
    EGrid* g = reinterpret_cast<EGrid*>(egrid_storage);
    const int N = ENX * ENY * ENZ;
    g->nijk = { ENX, ENY, ENZ };
    std::vector<int> act_index(N), glob_index; int na = 0;
    for (int n = 0; n < N; ++n) { bool on = (n == 1 || n == 6 || n == 10) ? nondet_bool() : (n != 4); if (on) { act_index[n] = na++; glob_index.push_back(n); } else act_index[n] = -1; }
    g->nactive = na; g->act_index = act_index; g->glob_index = glob_index;
    int i = nondet_int(), j = nondet_int(), k = nondet_int(); ASSUME(i >= 0 && i < ENX && j >= 0 && j < ENY && k >= 0 && k < ENZ);
    int gi = g->global_index(i, j, k);
    CHECK(gi == i + ENX * j + ENX * ENY * k);
    auto ijk = g->ijk_from_global_index(gi); CHECK(ijk[0] == i && ijk[1] == j && ijk[2] == k);
    int ai = g->active_index(i, j, k);
    CHECK(ai == act_index[gi]);
    if (ai >= 0) { auto q = g->ijk_from_active_index(ai); CHECK(q[0] == i && q[1] == j && q[2] == k); }
    bool threw = false; try { g->ijk_from_active_index(na); } catch (const std::invalid_argument&) { threw = true; } CHECK(threw);
    threw = false; try { g->global_index(ENX, 0, 0); } catch (const std::invalid_argument&) { threw = true; } CHECK(threw);
}
