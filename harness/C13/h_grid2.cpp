// C13 (second part): block-centred input (DX/DY/DZ/TOPS through the real generators) versus the corner-point grid it produces, the cached
// activeVolume() with inactive cells and non-uniform cells, left-handed cells, and the EGRID reader's index maps.
#include <array>
#include <vector>
#include <cmath>
#include <string>
#include <optional>
#include <map>
#include <filesystem>
#include <fstream>
#include <unordered_set>
#include <verif.h>
#define private public
#define protected public
#include <opm/input/eclipse/EclipseState/Grid/EclipseGrid.hpp>
#include <opm/io/eclipse/EGrid.hpp>
#undef private
#undef protected
#include <opm/common/utility/numeric/calculateCellVol.hpp>
#define CEQ(a, b) CHECK(EQ((a), (b)))
#ifndef GNX
#define GNX 2
#define GNY 2
#define GNZ 2
#endif
// DXV/DYV/DZV-style spacing expanded to per-cell DX/DY/DZ, uniform TOPS: the generated COORD/ZCORN grid must reproduce the block geometry
extern "C" void h_blockcentred(void) {
    double dxv[GNX], dyv[GNY], dzv[GNZ], top = verif_nondet_real();
    for (auto& v : dxv) { v = verif_nondet_real(); ASSUME(v > 0); } for (auto& v : dyv) { v = verif_nondet_real(); ASSUME(v > 0); } for (auto& v : dzv) { v = verif_nondet_real(); ASSUME(v > 0); }
    const int N = GNX * GNY * GNZ;
    std::vector<double> dx(N), dy(N), dz(N), tops(GNX * GNY, top);
    for (int k = 0; k < GNZ; ++k) for (int j = 0; j < GNY; ++j) for (int i = 0; i < GNX; ++i) { int g = i + GNX * (j + GNY * k); dx[g] = dxv[i]; dy[g] = dyv[j]; dz[g] = dzv[k]; }
    Opm::EclipseGrid helper(Opm::GridDims(GNX, GNY, GNZ));
    std::vector<double> coord = helper.makeCoordDxDyDzTops(dx, dy, dz, tops), zcorn = helper.makeZcornDzTops(dz, tops);
    CHECK(coord.size() == (GNX + 1) * (GNY + 1) * 6 && zcorn.size() == (size_t) N * 8);
    std::vector<int> act(N, 1);
#ifdef INACTIVE
    act[INACTIVE] = 0; act[0] = 0;
#endif
    Opm::EclipseGrid g({ GNX, GNY, GNZ }, coord, zcorn, act.data());
    const std::vector<double>& av = g.activeVolume();
    CHECK(av.size() == g.getNumActive());
    double x0 = 0, y0, z0;
    for (int i = 0; i < GNX; ++i) { y0 = 0; for (int j = 0; j < GNY; ++j) { z0 = top; for (int k = 0; k < GNZ; ++k) {
        size_t n = g.getGlobalIndex(i, j, k); const double vol = dxv[i] * dyv[j] * dzv[k];
        CEQ(g.getCellVolume(n), vol);
        if (g.cellActive(n)) CEQ(av[g.activeIndex(n)], vol);
        auto c = g.getCellCenter(n); CEQ(c[0], x0 + dxv[i] / 2); CEQ(c[1], y0 + dyv[j] / 2); CEQ(c[2], z0 + dzv[k] / 2);
        CEQ(g.getCellDepth(n), z0 + dzv[k] / 2); CEQ(g.getCellThickness(n), dzv[k]);
        auto d = g.getCellDims(n); CHECK(d[0] >= 0 && d[1] >= 0); CEQ(d[0] * d[0], dxv[i] * dxv[i]); CEQ(d[1] * d[1], dyv[j] * dyv[j]); CEQ(d[2], dzv[k]);
        z0 += dzv[k]; } y0 += dyv[j]; } x0 += dxv[i]; }
}
// a mirrored (left-handed) box still has the positive volume dx*dy*dz
extern "C" void h_cellvol_mirrored(void) {
    double x0 = verif_nondet_real(), y0 = verif_nondet_real(), z0 = verif_nondet_real(), dx = verif_nondet_real(), dy = verif_nondet_real(), dz = verif_nondet_real();
    ASSUME(dx > 0 && dy > 0 && dz > 0);
    std::array<double, 8> X, Y, Z;
    for (int n = 0; n < 8; ++n) { X[n] = x0 - (n & 1) * dx; Y[n] = y0 + ((n >> 1) & 1) * dy; Z[n] = z0 + ((n >> 2) & 1) * dz; }
    double v = calculateCellVol(X, Y, Z); CEQ(v, dx * dy * dz);
    for (int n = 0; n < 8; ++n) { X[n] = x0 + (n & 1) * dx; Y[n] = y0 - ((n >> 1) & 1) * dy; }
    CEQ(calculateCellVol(X, Y, Z), dx * dy * dz);
}
// EGRID reader index maps on an object laid out by the harness (dimensions ENX x ENY x ENZ, every ACTNUM)
#ifndef ENX
#define ENX 3
#define ENY 2
#define ENZ 2
#endif
alignas(16) static unsigned char egrid_storage[sizeof(Opm::EclIO::EGrid)];
extern "C" void h_egrid_index(void) {
    using Opm::EclIO::EGrid;
    EGrid* g = reinterpret_cast<EGrid*>(egrid_storage);
    const int N = ENX * ENY * ENZ;
    g->nijk = { ENX, ENY, ENZ };
    std::vector<int> act_index(N), glob_index; int na = 0;
    for (int n = 0; n < N; ++n) { bool on = (n == 1 || n == 6 || n == 10) ? nondet_bool() : (n != 4); if (on) { act_index[n] = na++; glob_index.push_back(n); } else act_index[n] = -1; }
    g->nactive = na; g->act_index = act_index; g->glob_index = glob_index;
    int i = nondet_int(), j = nondet_int(), k = nondet_int(); ASSUME(i >= 0 && i < ENX && j >= 0 && j < ENY && k >= 0 && k < ENZ);
    int gi = g->global_index(i, j, k);
    CHECK(gi == i + ENX * j + ENX * ENY * k);
    auto ijk = g->ijk_from_global_index(gi); CHECK(ijk[0] == i && ijk[1] == j && ijk[2] == k);
    int ai = g->active_index(i, j, k);
    CHECK(ai == act_index[gi]);
    if (ai >= 0) { auto q = g->ijk_from_active_index(ai); CHECK(q[0] == i && q[1] == j && q[2] == k); }
    bool threw = false; try { g->ijk_from_active_index(na); } catch (const std::invalid_argument&) { threw = true; } CHECK(threw);
    threw = false; try { g->global_index(ENX, 0, 0); } catch (const std::invalid_argument&) { threw = true; } CHECK(threw);
}

// DXV/DYV/DZV/DEPTHZ: the generated corner-point grid has, for cell (i,j,k), its eight corners on the DEPTHZ surface of the four
// surrounding nodes shifted down by the layer thicknesses above (top face) and by the layer itself (bottom face)
extern "C" void h_depthz(void) {
    double dxv[GNX], dyv[GNY], dzv[GNZ], depthz[(GNX + 1) * (GNY + 1)];
    for (auto& v : dxv) { v = verif_nondet_real(); ASSUME(v > 0); } for (auto& v : dyv) { v = verif_nondet_real(); ASSUME(v > 0); } for (auto& v : dzv) { v = verif_nondet_real(); ASSUME(v > 0); }
    for (auto& v : depthz) v = verif_nondet_real();
    Opm::EclipseGrid helper(Opm::GridDims(GNX, GNY, GNZ));
    std::vector<double> vx(dxv, dxv + GNX), vy(dyv, dyv + GNY), vz(dzv, dzv + GNZ), dz(depthz, depthz + (GNX + 1) * (GNY + 1));
    std::vector<double> coord = helper.makeCoordDxvDyvDzvDepthz(vx, vy, vz, dz), zcorn = helper.makeZcornDzvDepthz(vz, dz);
    CHECK(coord.size() == (GNX + 1) * (GNY + 1) * 6 && zcorn.size() == (size_t) GNX * GNY * GNZ * 8);
    Opm::EclipseGrid g({ GNX, GNY, GNZ }, coord, zcorn, nullptr);
    double x0 = 0;
    for (int i = 0; i < GNX; ++i) { double y0 = 0; for (int j = 0; j < GNY; ++j) { double zoff = 0; for (int k = 0; k < GNZ; ++k) {
        std::array<double, 8> X, Y, Z; g.getCellCorners({ i, j, k }, { GNX, GNY, GNZ }, X, Y, Z);
        for (int c = 0; c < 8; ++c) {
            const int di = c & 1, dj = (c >> 1) & 1, dk = c >> 2;
            CEQ(X[c], x0 + di * dxv[i]); CEQ(Y[c], y0 + dj * dyv[j]);                                   // vertical pillars
            CEQ(Z[c], depthz[(i + di) + (j + dj) * (GNX + 1)] + zoff + dk * dzv[k]);                    // node depth of ITS OWN pillar
        }
        zoff += dzv[k]; } y0 += dyv[j]; } x0 += dxv[i]; }
}
// inclined pillars: the corner of a cell lies on its pillar at the corner depth: linear interpolation of x AND y between the pillar's end points
extern "C" void h_pillars(void) {
    double coord[4 * 6], zc[8];
    for (auto& v : coord) v = verif_nondet_real(); for (auto& v : zc) v = verif_nondet_real();
    for (int p = 0; p < 4; ++p) ASSUME(coord[6 * p + 5] > coord[6 * p + 2]);                           // pillar bottom below its top
    for (int c = 0; c < 4; ++c) ASSUME(zc[c + 4] >= zc[c]);                                            // bottom corners not above the top corners (the constructor repairs inverted ZCORN columns)
    Opm::EclipseGrid g({ 1, 1, 1 }, std::vector<double>(coord, coord + 24), std::vector<double>(zc, zc + 8), nullptr);
    std::array<double, 8> X, Y, Z; g.getCellCorners({ 0, 0, 0 }, { 1, 1, 1 }, X, Y, Z);
    for (int c = 0; c < 8; ++c) {
        const double* P = coord + 6 * (c & 3);                                                        // corner c sits on pillar c mod 4
        CEQ(Z[c], zc[c]);
        const double t = (zc[c] - P[2]) / (P[5] - P[2]);
        CEQ(X[c], P[0] + t * (P[3] - P[0])); CEQ(Y[c], P[1] + t * (P[4] - P[1]));
    }
}
