EXPLANATION = ('C13: GridDims::getGlobalIndex/getIJK/assert* for symbolic dimensions, EclipseGrid::resetACTNUM / activeIndex / getGlobalIndex / cellActive for every ACTNUM '
  'of a small grid, cell geometry queries of the public API, and calculateCellVol against an exact integration of the trilinear Jacobian.')
BOUNDS = 'index laws: nx,ny,nz <= 2^10 (quick: 2^6) symbolic; ACTNUM: all 4^8 value vectors of a 2x2x2 grid (quick) and 3x2x2 (thorough); geometry: all positive real DX,DY,DZ,TOPS; cell volume: all 24 real corner coordinates'
OUTSIDE = 'thread-count independence (OpenMP not modelled), EGRID save/load as a whole (array I/O is C07), grids larger than the bound, IEEE rounding'
ASSUMPTIONS = ['sqrt is uninterpreted with the axioms sqrt(t) >= 0 and t >= 0 => sqrt(t)^2 = t', 'doubles as reals']
TUS = ['opm/input/eclipse/EclipseState/Grid/EclipseGrid.cpp', 'opm/input/eclipse/EclipseState/Grid/GridDims.cpp', 'opm/common/utility/numeric/calculateCellVol.cpp']

def jobs(tier):
    out = []
    dmax = 8 if tier == 'quick' else 16
    out.append(dict(name='dims_fwd', src='h_grid.cpp', defs={'DMAX': dmax}, entry='h_dims', tus=TUS[1:2], fp='real', bounds='dims <= %d' % dmax, opts=['--qtimeout', '5000']))
    out.append(dict(name='dims_inv', src='h_grid.cpp', defs={'DMAX': dmax}, entry='h_dims_inv', tus=TUS[1:2], fp='real', bounds='dims <= %d' % dmax, opts=['--qtimeout', '5000']))
    # larger grids: dimensions concrete per job (harness split), (i,j,k) / global index symbolic
    for dims in ([(3, 5, 7), (64, 1, 9), (1000, 1000, 1000)] if tier == 'quick' else [(1, 1, 1), (3, 5, 7), (7, 5, 3), (64, 1, 9), (1, 64, 2), (100, 100, 100), (1000, 1000, 1000), (1024, 3, 1024)]):
        out.append(dict(name='dims_%dx%dx%d' % dims, src='h_grid.cpp', defs={'DMAX': 1024, 'FNX': dims[0], 'FNY': dims[1], 'FNZ': dims[2]}, entry='h_dims,h_dims_inv', tus=TUS[1:2], fp='real',
                        bounds='grid %dx%dx%d, every cell' % dims, opts=['--qtimeout', '5000']))
    out.append(dict(name='actnum_2x2x2', src='h_grid.cpp', defs={'DMAX': 8}, entry='h_actnum', tus=TUS, fp='real', loopmax=4000, maxsteps=3000000, bounds='every ACTNUM in {-1..2}^8'))
    out.append(dict(name='geometry_2x2x2', src='h_grid.cpp', defs={'DMAX': 8}, entry='h_geometry', tus=TUS, fp='real', loopmax=4000, maxsteps=3000000))
    out.append(dict(name='cellvol', src='h_grid.cpp', defs={'DMAX': 8}, entry='h_cellvol_box,h_cellvol_sheared,h_cellvol', tus=TUS[2:], fp='real', loopmax=4000, maxsteps=3000000, opts=['--qtimeout', '3000', '--qtimeout2', '3000'],
                    bounds='all 24 real corner coordinates; sign-branch feasibility left undecided by the solver is explored on both sides'))
    out.append(dict(name='blockcentred_2x2x2', src='h_grid2.cpp', defs={'INACTIVE': 5}, entry='h_blockcentred', tus=TUS, fp='real', loopmax=4000, maxsteps=6000000,
                    bounds='2x2x2 grid, DXV/DYV/DZV-type spacing with all positive real values, cells 0 and 5 inactive'))
    out.append(dict(name='cellvol_mirrored', src='h_grid2.cpp', defs={}, entry='h_cellvol_mirrored', tus=TUS[2:], fp='real', loopmax=4000))
    out.append(dict(name='egrid_index_3x2x2', src='h_grid2.cpp', defs={}, entry='h_egrid_index', tus=['opm/io/eclipse/EGrid.cpp'], fp='real', loopmax=4000, maxsteps=40000000, partial_sites=False,
                    bounds='EGrid index maps on a 3x2x2 grid, ACTNUM symbolic in 3 cells, every cell'))
    if tier != 'quick':
        out.append(dict(name='blockcentred_3x2x1', src='h_grid2.cpp', defs={'GNX': 3, 'GNY': 2, 'GNZ': 1, 'INACTIVE': 4}, entry='h_blockcentred', tus=TUS, fp='real', loopmax=4000, maxsteps=6000000))
        out.append(dict(name='actnum_3x2x2', src='h_grid.cpp', defs={'DMAX': 8, 'GNX': 3, 'GNY': 2, 'GNZ': 2}, entry='h_actnum', tus=TUS, fp='real', loopmax=4000, maxsteps=30000000))
        out.append(dict(name='geometry_3x2x1', src='h_grid.cpp', defs={'DMAX': 8, 'GNX': 3, 'GNY': 2, 'GNZ': 1}, entry='h_geometry', tus=TUS, fp='real', loopmax=4000, maxsteps=3000000))
    out.append(dict(name='depthz_2x2x2', src='h_grid2.cpp', defs={}, entry='h_depthz', tus=TUS, fp='real', loopmax=20000, maxsteps=40000000, timeout=900, bounds='DXV/DYV/DZV/DEPTHZ generators on 2x2x2, all positive spacings, arbitrary node depths'))
    out.append(dict(name='pillars_1cell', src='h_grid2.cpp', defs={}, entry='h_pillars', tus=TUS, fp='real', loopmax=20000, maxsteps=40000000, timeout=900, bounds='one cell on four arbitrarily inclined pillars, arbitrary corner depths'))
    return out
