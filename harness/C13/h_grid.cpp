// C13: index laws of GridDims, active/global maps and cell geometry of EclipseGrid (public API), calculateCellVol against an
// independent exact integration of the trilinear Jacobian, block-centred input versus the corner-point description it generates.
#include <array>
#include <vector>
#include <cmath>
#include <string>
#include <optional>
#include <map>
#include <unordered_set>
#include <verif.h>
#define private public
#define protected public
#include <opm/input/eclipse/EclipseState/Grid/EclipseGrid.hpp>
#undef private
#undef protected
#include <opm/input/eclipse/EclipseState/Grid/GridDims.hpp>
#include <opm/common/utility/numeric/calculateCellVol.hpp>

#ifndef GNX
#define GNX 2
#define GNY 2
#define GNZ 2
#endif
#define CEQ(a, b) CHECK(EQ((a), (b)))

// ---- (i,j,k) <-> global, every grid with dimensions up to 2^10 each
extern "C" void h_dims(void) {
    unsigned long nx = nondet_ulong(), ny = nondet_ulong(), nz = nondet_ulong(), i = nondet_ulong(), j = nondet_ulong(), k = nondet_ulong();
#ifdef FNX
    nx = FNX; ny = FNY; nz = FNZ;
#endif
    ASSUME(nx >= 1 && nx <= DMAX && ny >= 1 && ny <= DMAX && nz >= 1 && nz <= DMAX && i < nx && j < ny && k < nz);
    Opm::GridDims d(nx, ny, nz);
    unsigned long g = d.getGlobalIndex(i, j, k);
    CHECK(g < d.getCartesianSize());
    CHECK(g == i + nx * j + nx * ny * k);
    auto ijk = d.getIJK(g);
    CHECK((unsigned long) ijk[0] == i && (unsigned long) ijk[1] == j && (unsigned long) ijk[2] == k);
}
extern "C" void h_dims_inv(void) {
    unsigned long nx = nondet_ulong(), ny = nondet_ulong(), nz = nondet_ulong(), g = nondet_ulong();
#ifdef FNX
    nx = FNX; ny = FNY; nz = FNZ;
#endif
    ASSUME(nx >= 1 && nx <= DMAX && ny >= 1 && ny <= DMAX && nz >= 1 && nz <= DMAX && g < nx * ny * nz);
    Opm::GridDims d(nx, ny, nz);
    auto ijk = d.getIJK(g);
    CHECK(ijk[0] >= 0 && (unsigned long) ijk[0] < nx && ijk[1] >= 0 && (unsigned long) ijk[1] < ny && ijk[2] >= 0 && (unsigned long) ijk[2] < nz);
    CHECK(d.getGlobalIndex(ijk[0], ijk[1], ijk[2]) == g);
    bool threw = false; try { d.assertGlobalIndex(g); d.assertIJK(ijk[0], ijk[1], ijk[2]); } catch (const std::exception&) { threw = true; } CHECK(!threw);
    threw = false; try { d.assertGlobalIndex(nx * ny * nz); } catch (const std::invalid_argument&) { threw = true; } CHECK(threw);
    threw = false; try { d.assertIJK(nx, 0, 0); } catch (const std::invalid_argument&) { threw = true; } CHECK(threw);
}

// ---- active <-> global for EVERY ACTNUM of a GNX x GNY x GNZ grid; geometry of the regular grid
extern "C" void h_actnum(void) {
    double dx = verif_nondet_real(), dy = verif_nondet_real(), dz = verif_nondet_real(), top = verif_nondet_real();
    ASSUME(dx > 0 && dy > 0 && dz > 0);
    Opm::EclipseGrid g(GNX, GNY, GNZ, dx, dy, dz, top);
    const int N = GNX * GNY * GNZ;
    std::vector<int> act(N); for (auto& a : act) { a = nondet_int(); ASSUME(a >= -1 && a <= 2); }
    g.resetACTNUM(act);
    unsigned long nact = 0;
    for (int n = 0; n < N; ++n) {
        bool on = act[n] > 0;
        CHECK(g.cellActive(n) == on);
        auto ijk = g.getIJK(n);
        CHECK(g.cellActive(ijk[0], ijk[1], ijk[2]) == on);
        if (on) {
            CHECK(g.activeIndex(n) == nact);                  // rank among the active cells, in global order
            CHECK(g.activeIndex(ijk[0], ijk[1], ijk[2]) == nact);
            CHECK(g.getGlobalIndex(nact) == (unsigned long) n);   // inverse
            ++nact;
        } else {
            bool threw = false; try { g.activeIndex(n); } catch (const std::invalid_argument&) { threw = true; } CHECK(threw);
        }
    }
    CHECK(g.getNumActive() == nact);
    CHECK(g.allActive() == (nact == (unsigned long) N));
    { bool threw = false; try { g.getGlobalIndex(nact); } catch (const std::out_of_range&) { threw = true; } CHECK(threw); }
    const auto& a2g = g.getActiveMap();
    CHECK(a2g.size() == nact);
    for (unsigned long a = 0; a + 1 < nact; ++a) CHECK(a2g[a] < a2g[a + 1]);
}
extern "C" void h_geometry(void) {
    double dx = verif_nondet_real(), dy = verif_nondet_real(), dz = verif_nondet_real(), top = verif_nondet_real();
    ASSUME(dx > 0 && dy > 0 && dz > 0);
    Opm::EclipseGrid g(GNX, GNY, GNZ, dx, dy, dz, top);
    for (int k = 0; k < GNZ; ++k) for (int j = 0; j < GNY; ++j) for (int i = 0; i < GNX; ++i) {
        unsigned long n = g.getGlobalIndex(i, j, k);
        CEQ(g.getCellVolume(n), dx * dy * dz); CEQ(g.getCellVolume(i, j, k), dx * dy * dz);
        auto c = g.getCellCenter(n);
        CEQ(c[0], (i + 0.5) * dx); CEQ(c[1], (j + 0.5) * dy); CEQ(c[2], top + (k + 0.5) * dz);
        CEQ(g.getCellDepth(n), top + (k + 0.5) * dz);
        CEQ(g.getCellThickness(n), dz);
        auto d = g.getCellDims(n);
        CHECK(d[0] >= 0 && d[1] >= 0); CEQ(d[0] * d[0], dx * dx); CEQ(d[1] * d[1], dy * dy); CEQ(d[2], dz);
    }
}

// ---- calculateCellVol == | integral of det(Jacobian) of the trilinear map | (Simpson's rule is exact: degree <= 2 per variable)
static double det3(const double a[3], const double b[3], const double c[3]) {
    return a[0] * (b[1] * c[2] - b[2] * c[1]) - a[1] * (b[0] * c[2] - b[2] * c[0]) + a[2] * (b[0] * c[1] - b[1] * c[0]);
}
static double ref_volume(const std::array<double, 8> P[3]) {
    const double node[3] = { 0.0, 0.5, 1.0 }, w[3] = { 1.0, 4.0, 1.0 };   // Simpson weights times 6 (kept integral: exact in real arithmetic)
    double V = 0;
    for (int a = 0; a < 3; ++a) for (int b = 0; b < 3; ++b) for (int c = 0; c < 3; ++c) {
        double xi = node[a], et = node[b], ze = node[c], J[3][3];
        for (int d = 0; d < 3; ++d) {       // corner index = i + 2 j + 4 k
            const auto& p = P[d];
            J[0][d] = (1 - et) * (1 - ze) * (p[1] - p[0]) + et * (1 - ze) * (p[3] - p[2]) + (1 - et) * ze * (p[5] - p[4]) + et * ze * (p[7] - p[6]);
            J[1][d] = (1 - xi) * (1 - ze) * (p[2] - p[0]) + xi * (1 - ze) * (p[3] - p[1]) + (1 - xi) * ze * (p[6] - p[4]) + xi * ze * (p[7] - p[5]);
            J[2][d] = (1 - xi) * (1 - et) * (p[4] - p[0]) + xi * (1 - et) * (p[5] - p[1]) + (1 - xi) * et * (p[6] - p[2]) + xi * et * (p[7] - p[3]);
        }
        V += w[a] * w[b] * w[c] * det3(J[0], J[1], J[2]);
    }
    return V / 216.0;
}
extern "C" void h_cellvol(void) {
    std::array<double, 8> P[3];
    for (int d = 0; d < 3; ++d) for (int n = 0; n < 8; ++n) P[d][n] = verif_nondet_real();
    double v = calculateCellVol(P[0], P[1], P[2]);
    double r = ref_volume(P);
    CHECK(v >= 0);
    CHECK(EQ(v, r) || EQ(v, -r));
}
extern "C" void h_cellvol_box(void) {
    double x0 = verif_nondet_real(), y0 = verif_nondet_real(), z0 = verif_nondet_real(), dx = verif_nondet_real(), dy = verif_nondet_real(), dz = verif_nondet_real();
    ASSUME(dx > 0 && dy > 0 && dz > 0);
    std::array<double, 8> X, Y, Z;
    for (int n = 0; n < 8; ++n) { X[n] = x0 + (n & 1) * dx; Y[n] = y0 + ((n >> 1) & 1) * dy; Z[n] = z0 + ((n >> 2) & 1) * dz; }
    CEQ(calculateCellVol(X, Y, Z), dx * dy * dz);
}
// sheared cell with planar faces (prism over a parallelogram, tilted top/bottom): exact volume = base area * mean height
extern "C" void h_cellvol_sheared(void) {
    double ax = verif_nondet_real(), ay = verif_nondet_real(), bx = verif_nondet_real(), by = verif_nondet_real();   // base edge vectors
    double z0 = verif_nondet_real(), h = verif_nondet_real(), sx = verif_nondet_real(), sy = verif_nondet_real();     // z = z0 + sx*u + sy*v planes, thickness h
    ASSUME(h > 0 && ax * by - ay * bx > 0);
    std::array<double, 8> X, Y, Z;
    for (int n = 0; n < 8; ++n) { double u = n & 1, v = (n >> 1) & 1, t = (n >> 2) & 1; X[n] = u * ax + v * bx; Y[n] = u * ay + v * by; Z[n] = z0 + sx * u + sy * v + t * h; }
    CEQ(calculateCellVol(X, Y, Z), (ax * by - ay * bx) * h);
}
