EXPLANATION = ('C20: the parsing kernels that touch untrusted bytes are executed on arbitrary byte strings with the memory checks of the executor as oracle (bounds, use after free/scope, invalid free, '
  'division by zero, unreachable, abort/terminate) plus "returns or throws an exception derived from std::exception": Parser.cpp str:: layer, RawRecord tokeniser, star tokens / value tokens, '
  'and the unformatted Eclipse readers (header incl. X231/C0nn, arrays with an untrusted element count on arbitrary bytes); Parser::parseString as a whole (ParserState, keyword recognition, INCLUDE/PATHS handling, '
  'ParserKeyword::parse, error path with nested exceptions) on a keyword prefix followed by arbitrary bytes, with the real generated keyword definitions of INCLUDE, PATHS, DIMENS, TITLE, PORO, END, ENDINC.')
BOUNDS = 'deck text: every byte string (all 256 values) of up to 4 bytes (thorough: 6) per kernel; whole parser: prefix + every byte string of up to 3 bytes (thorough: 4) + suffix for 6 prefixes; result files: every 24/48-byte header image, every array body of 12/20 bytes with an arbitrary 64-bit element count'
OUTSIDE = 'EclipseState/Schedule/SummaryConfig construction from an accepted deck, keywords other than the six added to the parser, ParseContext actions other than THROW_EXCEPTION (EXIT1 calls std::exit by design), INCLUDE files that exist, formatted result files, inputs longer than the bound, stack exhaustion by deep INCLUDE nesting, allocation failure'
ASSUMPTIONS = ['line/record views are sub-views of a NUL-terminated std::string buffer (the loader appends a newline): view.end() is dereferenceable', 'operator new never fails; an allocation with a symbolic size is an object of exactly that size',
               'std::istream::read on the in-memory file leaves the destination untouched beyond the bytes available (as the standard specifies)']
PARSE_KWS = ("INCLUDE", "PATHS", "FIRSTLINE", "DIMENS", "TITLE", "PORO")          # whole-parser jobs (h_parse.cpp)
def jobs(tier):
    n = 4 if tier == 'quick' else 6
    out = []
    for ent in ('h_fast_clean', 'h_clean_code', 'h_slashes', 'h_rawrecord', 'h_tokens'):
        out.append(dict(name='text_' + ent[2:], src='h_text.cpp', defs={'HN': n if ent not in ('h_tokens', 'h_clean_code') else min(n, 4)}, entry=ent, fp='real', loopmax=600, maxsteps=6000000,
                        tus=['opm/input/eclipse/Parser/raw/StarToken.cpp'] if ent == 'h_tokens' else [], bounds='<= %d arbitrary bytes' % n))
    FT = ['opm/io/eclipse/EclUtil.cpp']
    out.append(dict(name='file_header24', src='h_files.cpp', defs={'NBYTES': 24}, entry='h_header', tus=FT, fp='real', loopmax=600, bounds='all 24-byte header images'))
    FL = FT + ['opm/io/eclipse/EclFile.cpp']
    out.append(dict(name='file_load24_fixed', src='h_files.cpp', defs={'NBYTES': 24, 'TAGCLASS': 1}, entry='h_load', tus=FL, fp='ieee', loopmax=600, maxsteps=8000000, timeout=900, bounds='EclFile(filename) on every 24-byte file whose type tag does not start with C and whose count field is negative or <= 255'))
    out.append(dict(name='file_load24_c0nn', src='h_files.cpp', defs={'NBYTES': 24, 'TAGCLASS': 2}, entry='h_load', tus=FL, fp='ieee', loopmax=600, maxsteps=8000000, timeout=900, bounds='EclFile(filename) on every 24-byte file with a C??? tag over the alphabet {0,1,9,blank,-,x}, count negative or <= 255'))
    out.append(dict(name='file_load36_preload', src='h_files.cpp', defs={'NBYTES': 36, 'PRELOAD': 1, 'MAXCOUNT': 2, 'TAGCLASS': 1}, entry='h_load', tus=FL, fp='ieee', loopmax=600, maxsteps=8000000, timeout=900, bounds='EclFile(filename, preload) on every 36-byte file (tag not C???) whose header announces <= 2 elements and whose first record head announces <= 32 bytes'))
    out.append(dict(name='file_load_formatted', src='h_files.cpp', defs={'NBYTES': 0, 'CNTCHARS': 3}, entry='h_load_formatted', tus=FL, fp='ieee', loopmax=48, bound_is_hang=True, maxsteps=8000000, timeout=900,
                    bounds='EclFile(filename) on a formatted file: one 36-byte header line with a count field of 3 significant characters over {blank,-,0,1,3,9} and a 4-character type tag over {I,N,T,E,C,0,7,8,9,-,blank}'))
    FR = FL + ['opm/io/eclipse/ERst.cpp']
    out.append(dict(name='file_load_rst24', src='h_files.cpp', defs={'NBYTES': 24}, entry='h_load_rst', tus=FR, fp='ieee', loopmax=600, maxsteps=8000000, timeout=900, no_asserts=True, partial_sites=True, bounds='ERst(filename) on every 24-byte file (tag not C???, count negative or <= 2)'))
    out.append(dict(name='file_load_rst36', src='h_files.cpp', defs={'NBYTES': 36}, entry='h_load_rst', tus=FR, fp='ieee', loopmax=600, maxsteps=8000000, timeout=900, bounds='ERst(filename) on every 36-byte file (tag not C???, count <= 2, first record head <= 32 bytes)'))
    out.append(dict(name='file_header48', src='h_files.cpp', defs={'NBYTES': 48}, entry='h_header', tus=FT, fp='real', loopmax=600, bounds='all 48-byte images (two headers: X231 path)'))
    for t, tn in ((0, 'inte'), (1, 'doub'), (2, 'logi'), (3, 'char'), (4, 'c0nn')):
        out.append(dict(name='file_array_' + tn, src='h_files.cpp', defs={'NBYTES': {0: 12, 1: 20, 2: 12, 3: 12, 4: 9}[t], 'C0ES': 5, 'ATYPE': t}, entry='h_array', tus=FT, fp='ieee', loopmax=600, maxsteps=4000000,
                        bounds='arbitrary body bytes, arbitrary 64-bit count, first record head <= 32/16/10 bytes or negative'))
    PT = ['opm/input/eclipse/Parser/%s.cpp' % n for n in ('raw/RawKeyword', 'raw/RawRecord', 'raw/StarToken', 'ParseContext', 'ErrorGuard', 'InputErrorAction', 'ParserKeyword', 'ParserRecord', 'ParserItem', 'ParserEnums')] + [
          'opm/input/eclipse/Deck/%s.cpp' % n for n in ('Deck', 'DeckKeyword', 'DeckRecord', 'DeckItem', 'DeckView', 'DeckTree', 'DeckValue', 'DeckOutput', 'DeckSection', 'UDAValue', 'FileDeck', 'ImportContainer')] + [
          'opm/input/eclipse/Units/%s.cpp' % n for n in ('UnitSystem', 'Dimension')] + [
          'opm/common/%s.cpp' % n for n in ('OpmLog/OpmLog', 'OpmLog/Logger', 'OpmLog/LogUtil', 'OpmLog/KeywordLocation', 'utility/OpmInputError', 'utility/String', 'utility/shmatch')] + ['opm/input/eclipse/Python/Python.cpp', 'opm/input/eclipse/Python/PythonInterp.cpp', '_build/ParserKeywords/I.cpp', '_build/ParserKeywords/P.cpp', '_build/ParserKeywords/D.cpp', '_build/ParserKeywords/E.cpp', '_build/ParserKeywords/T.cpp']
    for kw in PARSE_KWS:
        out.append(dict(name='parse_' + kw.lower(), src='h_parse.cpp', defs={'HN': 3 if (tier == 'quick' or kw in ('TITLE', 'PORO')) else 4, 'KWID': {'INCLUDE': 0, 'PATHS': 1, 'FIRSTLINE': 2, 'DIMENS': 3, 'TITLE': 4, 'PORO': 5}[kw]}, entry='h_parse_builtin', tus=PT, fp='ieee' if kw == 'PORO' else 'real', loopmax=2000, maxsteps=400000000, timeout=900 if tier == 'quick' else 7200, opts=['--ctors'],
                        bounds='Parser(false).parseString("%s\\n" + <= 3 (thorough: 4; TITLE: 3 - four bytes ran for more than 80 minutes without finishing) arbitrary bytes + "\\n")' % kw))
    return out
