// C20 (deck text): the lexical kernels of the parser on ARBITRARY bytes (all 256 values): no out-of-bounds or dangling access, no abort,
// and either a result or an exception derived from std::exception.  The memory checks of the executor are the oracle.
#include "/repo/opm/input/eclipse/Parser/Parser.cpp"
#include "/repo/opm/input/eclipse/Parser/raw/RawRecord.cpp"
#include "/repo/opm/input/eclipse/Parser/raw/StarToken.hpp"
#include <verif.h>
#ifndef HN
#define HN 4
#endif
static std::string anytext(unsigned long maxn) {
    unsigned long n = nondet_ulong(); ASSUME(n <= maxn); n = verif_concretize(n, maxn);
    std::string s(n, ' '); for (unsigned long i = 0; i < n; ++i) s[i] = (char) nondet_uchar();
    return s;
}
extern "C" void h_fast_clean(void) {
    std::string in = anytext(HN);
    if (in.empty() || in.back() != '\n') in.push_back('\n');          // the loader's contract: input ends with a newline
    std::string out = Opm::str::fast_clean(in);
    CHECK(out.size() <= in.size());
    CHECK(!out.empty() && out.back() == '\n');
}
extern "C" void h_clean_code(void) {                                   // clean() with a code keyword present in the table
    std::string in = anytext(HN);
    if (in.empty() || in.back() != '\n') in.push_back('\n');
    std::vector<std::pair<std::string, std::string>> code { { "PY", "<<" } };
    std::string out = Opm::str::clean(code, in);
    CHECK(out.size() <= in.size() + 1);
}
extern "C" void h_slashes(void) {
    std::string in = anytext(HN);                                      // view into a NUL-terminated buffer (std::string): end() is dereferenceable
    std::string_view v(in);
    std::string_view a = Opm::str::del_after_first_slash(v), b = Opm::str::del_after_last_slash(v), c = Opm::str::strip_comments(v), d = Opm::str::trim(v);
    CHECK(a.data() == v.data() && a.size() <= v.size()); CHECK(b.data() == v.data() && b.size() <= v.size());
    CHECK(c.data() == v.data() && c.size() <= v.size()); CHECK(d.data() >= v.data() && d.data() + d.size() <= v.data() + v.size());
    std::string_view input(in), line; unsigned long total = 0; int guard = 0;
    while (Opm::str::getline(input, line)) { total += line.size() + 1; CHECK(++guard <= HN + 1); if (input.data() > in.data() + in.size()) break; }
}
extern "C" void h_rawrecord(void) {
    std::string in = anytext(HN);
    try {
        Opm::RawRecord rec(std::string_view(in), Opm::KeywordLocation{});
        unsigned long n = rec.size(); CHECK(n <= HN);
        // the parser asks INCLUDE and PATHS records for item 0 and item 1 without looking at size(): a missing item is an exception, nothing worse
        for (unsigned long k = 0; k < 3; ++k) {
            try { auto t = rec.getItem(k); CHECK(k < n); CHECK(t.data() >= in.data() && t.data() + t.size() <= in.data() + in.size() + 1); }
            catch (const std::exception&) { CHECK(k >= n); }
        }
        if (n) { auto f = rec.front(); CHECK(f.data() == rec.getItem(0).data() && f.size() == rec.getItem(0).size()); }
        while (rec.size()) { auto t = rec.pop_front(); CHECK(t.data() >= in.data() && t.data() + t.size() <= in.data() + in.size() + 1); CHECK(t.size() > 0); }
    } catch (const std::exception&) { }
}
extern "C" void h_tokens(void) {
    std::string in = anytext(HN); std::string_view tok(in);
    std::string cs, vs;
    try {
        if (Opm::isStarToken(tok, cs, vs)) { Opm::StarToken st(tok, cs, vs); CHECK(st.count() >= 1); CHECK(cs.size() + vs.size() + 1 == tok.size()); }
    } catch (const std::exception&) { }
    try { int v = Opm::readValueToken<int>(tok); (void) v; } catch (const std::exception&) { }
    try { std::string v = Opm::readValueToken<std::string>(tok); CHECK(v.size() <= tok.size()); } catch (const std::exception&) { }
}
