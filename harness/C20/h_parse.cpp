// C20 (deck text, whole parser): Parser::parseString on "<KEYWORD>\n<arbitrary bytes>\n" for the keywords the parser handles itself before any
// ParserKeyword is consulted (INCLUDE, PATHS, ENDINC, END, unknown names): a result, or an exception derived from std::exception - never
// std::terminate, an out-of-bounds access or a foreign exception type.
#include "/repo/opm/input/eclipse/Parser/Parser.cpp"
#include <verif.h>
#ifndef HN
#define HN 3
#endif
#ifndef KWID
#define KWID 0
#endif
#if KWID == 0
#define KW "INCLUDE"
#else
#define KW "PATHS"
#endif
extern "C" void h_parse_builtin(void) {
    std::string text = KW "\n";
    unsigned long n = nondet_ulong(); ASSUME(n <= HN); n = verif_concretize(n, HN);
    for (unsigned long i = 0; i < n; ++i) text.push_back((char) nondet_uchar());
    text += "\n";
    Opm::Parser parser(false);
    Opm::ParseContext ctx; Opm::ErrorGuard errors;
    bool ok = false;
    try { auto deck = parser.parseString(text, ctx, errors); ok = true; CHECK(deck.size() <= 1); } catch (const std::exception&) { ok = true; }
    CHECK(ok);
    errors.clear();
}
