// C20 (deck text, whole parser): Parser::parseString on "<KEYWORD>\n<arbitrary bytes>\n" for the keywords the parser handles itself before any
// ParserKeyword is consulted (INCLUDE, PATHS, ENDINC, END, unknown names): a result, or an exception derived from std::exception - never
// std::terminate, an out-of-bounds access or a foreign exception type.
#include "/repo/opm/input/eclipse/Parser/Parser.cpp"
#include <opm/input/eclipse/Parser/ParserKeywords/I.hpp>
#include <opm/input/eclipse/Parser/ParserKeywords/P.hpp>
#include <opm/input/eclipse/Parser/ParserKeywords/E.hpp>
#include <opm/input/eclipse/Parser/ParserKeywords/D.hpp>
#include <opm/input/eclipse/Parser/ParserKeywords/T.hpp>
#include <opm/input/eclipse/Parser/InputErrorAction.hpp>
#include <verif.h>
#ifndef HN
#define HN 3
#endif
#ifndef KWID
#define KWID 0
#endif
// KWID: 0 INCLUDE record, 1 PATHS records, 2 arbitrary bytes as the FIRST (keyword) line, 3 DIMENS record (three integers), 4 TITLE line, 5 PORO data array (doubles)
#if KWID == 0
#define PREFIX "INCLUDE\n"
#define SUFFIX "\n"
#elif KWID == 1
#define PREFIX "PATHS\n"
#define SUFFIX "\n/\n"          /* PATHS is a list of records: the closing slash line lets a record built from the bytes be processed */
#elif KWID == 2
#define PREFIX ""
#define SUFFIX "\n/\n"
#elif KWID == 3
#define PREFIX "DIMENS\n"
#define SUFFIX "\n"
#elif KWID == 4
#define PREFIX "TITLE\n"
#define SUFFIX "\nEND\n"
#else
#define PREFIX "PORO\n"
#define SUFFIX " /\n"        /* a data array of floating point values */
#endif
extern "C" void h_parse_builtin(void) {
    std::string text = PREFIX;
    unsigned long n = nondet_ulong(); ASSUME(n <= HN); n = verif_concretize(n, HN);
    for (unsigned long i = 0; i < n; ++i) text.push_back((char) nondet_uchar());
    text += SUFFIX;
    Opm::Parser parser(false);
    parser.addKeyword<Opm::ParserKeywords::INCLUDE>(); parser.addKeyword<Opm::ParserKeywords::PATHS>(); parser.addKeyword<Opm::ParserKeywords::DIMENS>(); parser.addKeyword<Opm::ParserKeywords::TITLE>();
    parser.addKeyword<Opm::ParserKeywords::PORO>(); parser.addKeyword<Opm::ParserKeywords::END>(); parser.addKeyword<Opm::ParserKeywords::ENDINC>();      // the real (generated) keyword definitions
    Opm::ParseContext ctx; Opm::ErrorGuard errors;
    ctx.update(Opm::InputErrorAction::THROW_EXCEPTION);               // every recoverable error throws (the default context maps PARSE_MISSING_INCLUDE to EXIT1 = std::exit(1), a policy, not a crash)
    bool ok = false;
    try { auto deck = parser.parseString(text, ctx, errors); ok = true;
#if KWID == 1
        CHECK(deck.size() == 0);                                      // PATHS only feeds the alias table, it never becomes a deck keyword (INCLUDE: no file exists, so no deck is ever returned)
#elif KWID == 3 || KWID == 4 || KWID == 5
        CHECK(deck.size() <= 1);
#elif KWID == 2
        CHECK(deck.size() <= 2);
#endif
    } catch (const std::exception&) { ok = true; }
    CHECK(ok);
    errors.clear();
}
