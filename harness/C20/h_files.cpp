// C20 (result files): the unformatted readers on ARBITRARY bytes: header parsing (incl. X231 and C0nn) and array reading with untrusted counts.
#include <fstream>
#include <string>
#include <vector>
#include <verif.h>
#include <memfile.h>
#include <opm/io/eclipse/EclUtil.hpp>
#include <opm/io/eclipse/EclIOdata.hpp>
using namespace Opm::EclIO;
#ifndef NBYTES
#define NBYTES 24
#endif
extern "C" void h_header(void) {
    std::fstream* f = verif_memfile(NBYTES);
    std::string name(8, ' '); std::int64_t num = -7; eclArrType t = MESS; int es = 0;
    try {
        readBinaryHeader(*f, name, num, t, es);
        CHECK(name.size() == 8);
        CHECK(t == INTE || t == REAL || t == DOUB || t == CHAR || t == LOGI || t == MESS || t == C0NN);
        CHECK((t == DOUB || t == CHAR) ? es == 8 : (t == C0NN ? true : es == 4));
    } catch (const std::exception&) { }
}
// array body of arbitrary bytes read with an arbitrary (untrusted) element count
#ifndef ATYPE
#define ATYPE 0
#endif
#ifndef MAXHEAD
#define MAXHEAD 32
#endif
#ifndef C0ES
#define C0ES 9
#endif
extern "C" void h_array(void) {
    std::fstream* f = verif_memfile(NBYTES);
    // bound: the first record head announces at most MAXHEAD bytes (or is negative): the element loop then has a small trip count
    { unsigned b0 = verif_memfile_byte(1, 0), b1 = verif_memfile_byte(1, 1), b2 = verif_memfile_byte(1, 2), b3 = verif_memfile_byte(1, 3);
      ASSUME((b0 & 0x80) || (b0 == 0 && b1 == 0 && b2 == 0 && b3 <= MAXHEAD)); }
    std::int64_t count = nondet_long();
    try {
        if (ATYPE == 0) { auto v = readBinaryInteArray(*f, count); CHECK((std::int64_t) v.size() == count); }
        else if (ATYPE == 1) { auto v = readBinaryDoubArray(*f, count); CHECK((std::int64_t) v.size() == count); }
        else if (ATYPE == 2) { auto v = readBinaryLogiArray(*f, count); CHECK((std::int64_t) v.size() == count); }
        else if (ATYPE == 3) { auto v = readBinaryCharArray(*f, count); CHECK((std::int64_t) v.size() == count); }
        else { auto v = readBinaryC0nnArray(*f, count, C0ES); CHECK((std::int64_t) v.size() == count); }
    } catch (const std::exception&) { }
}
// opening an arbitrary byte string as a result file through the public constructor: EclFile::load walks the headers, sizes every array with
// sizeOnDiskBinary and seeks over it; with preload the arrays are read as well
#include <opm/io/eclipse/EclFile.hpp>
#ifndef PRELOAD
#define PRELOAD 0
#endif
#ifndef TAGCLASS
#define TAGCLASS 0
#endif
#ifndef MAXCOUNT
#define MAXCOUNT 255
#endif
extern "C" void h_load(void) {
    verif_memfile(NBYTES); verif_memfile_name(1, "ANY.UNRST");
    // bound: the first header announces a negative count or at most MAXCOUNT elements (the size arithmetic for every count is the subject
    // of the C07 size jobs; here the point is what an arbitrary header makes the loader do)
    { unsigned b0 = verif_memfile_byte(1, 12), b1 = verif_memfile_byte(1, 13), b2 = verif_memfile_byte(1, 14), b3 = verif_memfile_byte(1, 15);
      ASSUME((b0 & 0x80) || (b0 == 0 && b1 == 0 && b2 == 0 && b3 <= MAXCOUNT)); }
#if TAGCLASS == 1
    ASSUME(verif_memfile_byte(1, 16) != 'C');          // the five fixed-size types, MESS, X231 and every unknown tag
#elif TAGCLASS == 2
    // C0nn tags: element size digits over a small alphabet that reaches every shape stoi distinguishes (zero, small, > 77, three digits,
    // blank-padded, signed, not a number); keeps the element size concrete on each path (a symbolic divisor stalls every solver)
    ASSUME(verif_memfile_byte(1, 16) == 'C');
    for (int i = 17; i < 20; ++i) { unsigned char c = verif_memfile_byte(1, i); ASSUME(c == '0' || c == '1' || c == '9' || c == ' ' || c == '-' || c == 'x'); }
#endif
#if PRELOAD
    // bound for the element loops of the array readers: the first data record announces at most 32 bytes (or a negative size)
    { unsigned b0 = verif_memfile_byte(1, 24), b1 = verif_memfile_byte(1, 25), b2 = verif_memfile_byte(1, 26), b3 = verif_memfile_byte(1, 27);
      ASSUME((b0 & 0x80) || (b0 == 0 && b1 == 0 && b2 == 0 && b3 <= 32)); }
#endif
    try {
        EclFile f(std::string("ANY.UNRST"), PRELOAD != 0);
        auto l = f.getList();
        CHECK(l.size() >= 1 || NBYTES == 0);
    } catch (const std::exception&) { }
}
// a formatted result file: one header line of the published shape whose count field and type tag are arbitrary over the stated alphabets,
// followed by arbitrary bytes; opened through the public constructor (EclFile::load: readFormattedHeader, sizeOnDiskFormatted, seek)
#ifndef CNTCHARS
#define CNTCHARS 3
#endif
extern "C" void h_load_formatted(void) {
    const unsigned long L = 36;            // " 'SEQNUM  '" + 17-character count field + " 'TYPE'\n"
    const char* head = " 'SEQNUM  '";
    verif_memfile(L + NBYTES);
    for (unsigned long i = 0; i < L; ++i) {
        if (i < 11) verif_memfile_setbyte(1, i, (unsigned char) head[i]);
        else if (i < 28) { unsigned char c = verif_memfile_byte(1, i); ASSUME(c == ' ' || c == '-' || c == '0' || c == '1' || c == '3' || c == '9'); if (i < 28 - CNTCHARS) ASSUME(c == ' '); }   // count: CNTCHARS significant characters
        else if (i == 28) verif_memfile_setbyte(1, i, ' ');
        else if (i == 29 || i == 34) verif_memfile_setbyte(1, i, '\'');
        else if (i == 35) verif_memfile_setbyte(1, i, '\n');
        else { unsigned char c = verif_memfile_byte(1, i); ASSUME(c == 'I' || c == 'N' || c == 'T' || c == 'E' || c == 'C' || c == '0' || c == '7' || c == '8' || c == '9' || c == '-' || c == ' '); }   // type tag
    }
    verif_memfile_name(1, "ANY.FUNRST");
    try {
        EclFile f(std::string("ANY.FUNRST"), false);
        auto l = f.getList();
        CHECK(l.size() >= 1);
    } catch (const std::exception&) { }
}
// opening an arbitrary byte string as a unified RESTART file: ERst(filename) indexes the report steps from the SEQNUM arrays it finds
#include <opm/io/eclipse/ERst.hpp>
extern "C" void h_load_rst(void) {
    verif_memfile(NBYTES); verif_memfile_name(1, "ANY.UNRST");
    ASSUME(verif_memfile_byte(1, 16) != 'C');
    { unsigned b0 = verif_memfile_byte(1, 12), b1 = verif_memfile_byte(1, 13), b2 = verif_memfile_byte(1, 14), b3 = verif_memfile_byte(1, 15);
      ASSUME((b0 & 0x80) || (b0 == 0 && b1 == 0 && b2 == 0 && b3 <= 2)); }
    if (NBYTES > 27) { unsigned b0 = verif_memfile_byte(1, 24), b1 = verif_memfile_byte(1, 25), b2 = verif_memfile_byte(1, 26), b3 = verif_memfile_byte(1, 27);
      ASSUME((b0 & 0x80) || (b0 == 0 && b1 == 0 && b2 == 0 && b3 <= 32)); }
    try {
        ERst rst(std::string("ANY.UNRST"));
        auto steps = rst.listOfReportStepNumbers();
        CHECK(steps.size() <= 2);
    } catch (const std::exception&) { }
}
