// C20 (result files): the unformatted readers on ARBITRARY bytes: header parsing (incl. X231 and C0nn) and array reading with untrusted counts.
#include <fstream>
#include <string>
#include <vector>
#include <verif.h>
#include <memfile.h>
#include <opm/io/eclipse/EclUtil.hpp>
#include <opm/io/eclipse/EclIOdata.hpp>
using namespace Opm::EclIO;
#ifndef NBYTES
#define NBYTES 24
#endif
extern "C" void h_header(void) {
    std::fstream* f = verif_memfile(NBYTES);
    std::string name(8, ' '); std::int64_t num = -7; eclArrType t = MESS; int es = 0;
    try {
        readBinaryHeader(*f, name, num, t, es);
        CHECK(name.size() == 8);
        CHECK(t == INTE || t == REAL || t == DOUB || t == CHAR || t == LOGI || t == MESS || t == C0NN);
        CHECK((t == DOUB || t == CHAR) ? es == 8 : (t == C0NN ? true : es == 4));
    } catch (const std::exception&) { }
}
// array body of arbitrary bytes read with an arbitrary (untrusted) element count
#ifndef ATYPE
#define ATYPE 0
#endif
#ifndef MAXHEAD
#define MAXHEAD 32
#endif
#ifndef C0ES
#define C0ES 9
#endif
extern "C" void h_array(void) {
    std::fstream* f = verif_memfile(NBYTES);
    // bound: the first record head announces at most MAXHEAD bytes (or is negative): the element loop then has a small trip count
    { unsigned b0 = verif_memfile_byte(1, 0), b1 = verif_memfile_byte(1, 1), b2 = verif_memfile_byte(1, 2), b3 = verif_memfile_byte(1, 3);
      ASSUME((b0 & 0x80) || (b0 == 0 && b1 == 0 && b2 == 0 && b3 <= MAXHEAD)); }
    std::int64_t count = nondet_long();
    try {
        if (ATYPE == 0) { auto v = readBinaryInteArray(*f, count); CHECK((std::int64_t) v.size() == count); }
        else if (ATYPE == 1) { auto v = readBinaryDoubArray(*f, count); CHECK((std::int64_t) v.size() == count); }
        else if (ATYPE == 2) { auto v = readBinaryLogiArray(*f, count); CHECK((std::int64_t) v.size() == count); }
        else if (ATYPE == 3) { auto v = readBinaryCharArray(*f, count); CHECK((std::int64_t) v.size() == count); }
        else { auto v = readBinaryC0nnArray(*f, count, C0ES); CHECK((std::int64_t) v.size() == count); }
    } catch (const std::exception&) { }
}
