EXPLANATION = ('C17 (set and function algebra): UDQSet/UDQScalar arithmetic (+ - * / in set-set, set-scalar, scalar-set and scalar-SET broadcast forms, definedness propagation) and the UDQ function implementations '
  '(SUM AVEA AVEH MAX MIN PROD NORM1 NORM2 NORMI; ABS DEF UNDEF IDV EXP SORTA SORTD; UADD UMUL UMAX UMIN) with symbolic values and symbolic defined-flags over a 3-well set.')
BOUNDS = 'sets of 3 wells, every defined/undefined pattern, all real values (divisors non-zero)'
OUTSIDE = 'the expression parser (precedence ladder) and AST evaluation, UDQConfig::eval ordering of ASSIGN/DEFINE/UPDATE, wildcard matching, tokenisation of DEFINE records, UDQState; comparison functions with eps; random functions; IEEE overflow to non-finite results'
ASSUMPTIONS = ['doubles as reals; exp/sqrt uninterpreted with their defining axioms']
TUS = ['opm/input/eclipse/Schedule/UDQ/UDQSet.cpp', 'opm/input/eclipse/Schedule/UDQ/UDQFunction.cpp', 'opm/input/eclipse/Schedule/UDQ/UDQEnums.cpp']
def jobs(tier):
    out = []
    for op in range(4):
        out.append(dict(name='binary_op%d' % op, src='h_udqset.cpp', defs={'OPK': op}, entry='h_binary', tus=TUS, fp='real', loopmax=2000, maxsteps=40000000, bounds='operator %s' % '+-*/'[op]))
        out.append(dict(name='binary_op%d_groups' % op, src='h_udqset.cpp', defs={'OPK': op, 'GROUPSET': 1}, entry='h_binary', tus=TUS, fp='real', loopmax=2000, maxsteps=40000000, bounds='operator %s, group sets' % '+-*/'[op]))
    out.append(dict(name='reductions', src='h_udqset.cpp', defs={}, entry='h_reductions', tus=TUS, fp='real', loopmax=2000, maxsteps=40000000, partial_sites=False))
    out.append(dict(name='elemental', src='h_udqset.cpp', defs={}, entry='h_elemental', tus=TUS, fp='real', loopmax=2000, maxsteps=40000000))
    out.append(dict(name='compare', src='h_udqset.cpp', defs={}, entry='h_compare', tus=TUS, fp='real', loopmax=2000, maxsteps=40000000, bounds='six comparison functions, 3-element sets, tolerance 1e-4, non-zero left operand'))
    out.append(dict(name='union', src='h_udqset.cpp', defs={}, entry='h_union', tus=TUS, fp='real', loopmax=2000, maxsteps=40000000))
    PT = ['opm/input/eclipse/Schedule/UDQ/%s.cpp' % n for n in ('UDQASTNode', 'UDQContext', 'UDQEnums', 'UDQFunction', 'UDQFunctionTable', 'UDQParams', 'UDQParser', 'UDQSet', 'UDQState', 'UDQToken', 'UDT')] + [
          'opm/input/eclipse/Schedule/SummaryState.cpp', 'opm/input/eclipse/Schedule/Well/WellMatcher.cpp', 'opm/input/eclipse/Schedule/Well/NameOrder.cpp', 'opm/input/eclipse/Parser/ParseContext.cpp',
          'opm/input/eclipse/Parser/ErrorGuard.cpp', 'opm/common/OpmLog/KeywordLocation.cpp', 'opm/common/utility/String.cpp', 'opm/common/utility/TimeService.cpp', 'opm/common/utility/shmatch.cpp']
    pairs = [(a, b) for a in range(9) for b in range(9)]
    if tier == 'quick': pairs = [(a, b) for (a, b) in pairs if (a, b) in ((0, 2), (2, 0), (1, 1), (3, 3), (3, 2), (2, 4), (4, 2), (4, 3), (0, 4), (4, 0), (1, 3), (4, 4), (0, 5), (5, 0), (6, 2), (7, 2), (2, 7), (8, 0), (0, 8), (5, 7), (8, 6))]
    for a, b in pairs:
        out.append(dict(name='parse_%d_%d' % (a, b), src='h_udqparse.cpp', defs={'OPA': a, 'OPB': b}, entry='h_precedence', tus=PT, fp='real', loopmax=20000, maxsteps=40000000, timeout=600, opts=['--ctors'],
                        bounds='a %s b %s c with and without parentheses, all positive real a, b, c' % (('+', '-', '*', '/', '^', '>', '<', 'UADD', 'UMUL')[a], ('+', '-', '*', '/', '^', '>', '<', 'UADD', 'UMUL')[b])))
    return out
