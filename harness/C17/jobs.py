EXPLANATION = ('C17 (set and function algebra): UDQSet/UDQScalar arithmetic (+ - * / in set-set, set-scalar, scalar-set and scalar-SET broadcast forms, definedness propagation) and the UDQ function implementations '
  '(SUM AVEA AVEH MAX MIN PROD NORM1 NORM2 NORMI; ABS DEF UNDEF IDV EXP SORTA SORTD; UADD UMUL UMAX UMIN) with symbolic values and symbolic defined-flags over a 3-well set.')
BOUNDS = 'sets of 3 wells, every defined/undefined pattern, all real values (divisors non-zero)'
OUTSIDE = 'the expression parser (precedence ladder) and AST evaluation, UDQConfig::eval ordering of ASSIGN/DEFINE/UPDATE, wildcard matching, tokenisation of DEFINE records, UDQState; comparison functions with eps; random functions; IEEE overflow to non-finite results'
ASSUMPTIONS = ['doubles as reals; exp/sqrt uninterpreted with their defining axioms']
TUS = ['opm/input/eclipse/Schedule/UDQ/UDQSet.cpp', 'opm/input/eclipse/Schedule/UDQ/UDQFunction.cpp', 'opm/input/eclipse/Schedule/UDQ/UDQEnums.cpp']
def jobs(tier):
    out = []
    for op in range(4):
        out.append(dict(name='binary_op%d' % op, src='h_udqset.cpp', defs={'OPK': op}, entry='h_binary', tus=TUS, fp='real', loopmax=2000, maxsteps=40000000, bounds='operator %s' % '+-*/'[op]))
    out.append(dict(name='reductions', src='h_udqset.cpp', defs={}, entry='h_reductions', tus=TUS, fp='real', loopmax=2000, maxsteps=40000000, partial_sites=False))
    out.append(dict(name='elemental', src='h_udqset.cpp', defs={}, entry='h_elemental', tus=TUS, fp='real', loopmax=2000, maxsteps=40000000))
    out.append(dict(name='union', src='h_udqset.cpp', defs={}, entry='h_union', tus=TUS, fp='real', loopmax=2000, maxsteps=40000000))
    return out
