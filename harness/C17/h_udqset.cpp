// C17 (set/function algebra): UDQSet / UDQScalar arithmetic with definedness, scalar broadcasting, and the UDQ function implementations
// (reductions, elemental functions, union operators), with symbolic values and symbolic defined-flags over a 3-well set.
#include <string>
#include <vector>
#include <optional>
#include <cmath>
#include <stdexcept>
#include <opm/input/eclipse/Schedule/UDQ/UDQSet.hpp>
#include <opm/input/eclipse/Schedule/UDQ/UDQFunction.hpp>
#include <opm/input/eclipse/Schedule/UDQ/UDQEnums.hpp>
#include <verif.h>
using namespace Opm;
#define CEQ(a, b) CHECK(EQ((a), (b)))
#define W wellnames()
static const std::vector<std::string>& wellnames() { static const std::vector<std::string> w { "W1", "W2", "W3" }; return w; }     // no dynamic initialisation of globals in the harness
struct Sym { double v[3]; bool d[3]; };
static Sym mksym(bool nonzero = false) { Sym s; for (int i = 0; i < 3; ++i) { s.v[i] = verif_nondet_real(); s.d[i] = nondet_bool(); if (nonzero) ASSUME(s.v[i] != 0.0); } return s; }
#ifndef GROUPSET
#define GROUPSET 0
#endif
// the same three names as a well set or as a group set
static UDQSet mkset(const char* name, const Sym& s) { UDQSet u = GROUPSET ? UDQSet::groups(name, W) : UDQSet::wells(name, W); for (int i = 0; i < 3; ++i) if (s.d[i]) u.assign(i, s.v[i]); return u; }
#ifndef OPK
#define OPK 0     /* 0 + 1 - 2 * 3 / */
#endif
static double app(double a, double b) { return OPK == 0 ? a + b : OPK == 1 ? a - b : OPK == 2 ? a * b : a / b; }
extern "C" void h_binary(void) {
    Sym a = mksym(), b = mksym(OPK == 3); double c = verif_nondet_real(); if (OPK == 3) ASSUME(c != 0.0);
    UDQSet A = mkset("A", a), B = mkset("B", b);
    UDQSet R = OPK == 0 ? A + B : OPK == 1 ? A - B : OPK == 2 ? A * B : A / B;              // element-wise, undefined propagates
    CHECK(R.size() == 3);
    for (int i = 0; i < 3; ++i) { CHECK(R[i].defined() == (a.d[i] && b.d[i])); if (a.d[i] && b.d[i]) CEQ(R[i].get(), app(a.v[i], b.v[i])); CHECK(R[i].wgname() == W[i]); }
    UDQSet S = OPK == 0 ? A + c : OPK == 1 ? A - c : OPK == 2 ? A * c : A / c;              // set (op) scalar
    for (int i = 0; i < 3; ++i) { CHECK(S[i].defined() == a.d[i]); if (a.d[i]) CEQ(S[i].get(), app(a.v[i], c)); }
    UDQSet T = OPK == 0 ? c + B : OPK == 1 ? c - B : OPK == 2 ? c * B : c / B;              // scalar (op) set
    for (int i = 0; i < 3; ++i) { CHECK(T[i].defined() == b.d[i]); if (b.d[i]) CEQ(T[i].get(), app(c, b.v[i])); }
    UDQSet K = UDQSet::scalar("K", c);                                                      // scalar SET broadcast over the well set
    UDQSet U = OPK == 0 ? A + K : OPK == 1 ? A - K : OPK == 2 ? A * K : A / K;
    CHECK(U.size() == 3); for (int i = 0; i < 3; ++i) { CHECK(U[i].defined() == a.d[i]); if (a.d[i]) CEQ(U[i].get(), app(a.v[i], c)); }
    UDQSet V = OPK == 0 ? K + B : OPK == 1 ? K - B : OPK == 2 ? K * B : K / B;
    CHECK(V.size() == 3); for (int i = 0; i < 3; ++i) { CHECK(V[i].defined() == b.d[i]); if (b.d[i]) CEQ(V[i].get(), app(c, b.v[i])); }
    CHECK(A.defined_size() == (size_t) (a.d[0] + a.d[1] + a.d[2]));
}
extern "C" void h_reductions(void) {
    Sym a = mksym(); UDQSet A = mkset("A", a);
    int n = a.d[0] + a.d[1] + a.d[2]; double sum = 0, prod = 1, mx = 0, mn = 0, n1 = 0, n2 = 0, ni = 0; bool first = true;
    for (int i = 0; i < 3; ++i) if (a.d[i]) { double x = a.v[i], ax = x < 0 ? -x : x; sum += x; prod *= x; n1 += ax; n2 += x * x; if (first || x > mx) mx = x; if (first || x < mn) mn = x; if (first || ax > ni) ni = ax; first = false; }
    UDQSet s = UDQScalarFunction::SUM(A), av = UDQScalarFunction::AVEA(A), pmax = UDQScalarFunction::UDQ_MAX(A), pmin = UDQScalarFunction::UDQ_MIN(A), pr = UDQScalarFunction::PROD(A);
    UDQSet r1 = UDQScalarFunction::NORM1(A), r2 = UDQScalarFunction::NORM2(A), ri = UDQScalarFunction::NORMI(A);
    if (n == 0) { CHECK(av.defined_size() == 0); CHECK(pmax.defined_size() == 0); CHECK(pmin.defined_size() == 0); CHECK(r1.defined_size() == 0 && r2.defined_size() == 0 && ri.defined_size() == 0 && pr.defined_size() == 0); }      // reductions of an all-undefined set carry no defined value
    else {
        CEQ(s[0].get(), sum); CEQ(av[0].get() * n, sum); CEQ(pmax[0].get(), mx); CEQ(pmin[0].get(), mn); CEQ(pr[0].get(), prod);
        CEQ(r1[0].get(), n1); CHECK(r2[0].get() >= 0); CEQ(r2[0].get() * r2[0].get(), n2); CEQ(ri[0].get(), ni);
    }
    if (n > 0 && a.v[0] != 0 && a.v[1] != 0 && a.v[2] != 0) { double hs = 0; for (int i = 0; i < 3; ++i) if (a.d[i]) hs += 1.0 / a.v[i]; if (hs != 0) CEQ(UDQScalarFunction::AVEH(A)[0].get() * hs, (double) n); }
}
extern "C" void h_elemental(void) {
    Sym a = mksym(); UDQSet A = mkset("A", a);
    UDQSet ab = UDQUnaryElementalFunction::ABS(A), df = UDQUnaryElementalFunction::DEF(A), ud = UDQUnaryElementalFunction::UNDEF(A), id = UDQUnaryElementalFunction::IDV(A), ex = UDQUnaryElementalFunction::EXP(A);
    for (int i = 0; i < 3; ++i) {
        CHECK(ab[i].defined() == a.d[i]); if (a.d[i]) CEQ(ab[i].get(), a.v[i] < 0 ? -a.v[i] : a.v[i]);
        CHECK(df[i].defined() == a.d[i]); if (a.d[i]) CEQ(df[i].get(), 1.0);                // DEF: 1 where defined, undefined elsewhere
        CHECK(ud[i].defined() == !a.d[i]); if (!a.d[i]) CEQ(ud[i].get(), 1.0);               // UNDEF: 1 where undefined
        CHECK(id[i].defined()); CEQ(id[i].get(), a.d[i] ? 1.0 : 0.0);                        // IDV: indicator
        CHECK(ex[i].defined() == a.d[i]); if (a.d[i]) CEQ(ex[i].get(), std::exp(a.v[i]));
    }
    // SORTA / SORTD: ranks 1..n of the defined elements in ascending / descending order
    ASSUME(a.v[0] != a.v[1] && a.v[1] != a.v[2] && a.v[0] != a.v[2]);
    UDQSet sa = UDQUnaryElementalFunction::SORTA(A), sd = UDQUnaryElementalFunction::SORTD(A);
    int n = a.d[0] + a.d[1] + a.d[2];
    for (int i = 0; i < 3; ++i) {
        CHECK(sa[i].defined() == a.d[i] && sd[i].defined() == a.d[i]);
        if (a.d[i]) { int less = 0, more = 0; for (int j = 0; j < 3; ++j) if (j != i && a.d[j]) { if (a.v[j] < a.v[i]) ++less; else ++more; }
                      CEQ(sa[i].get(), (double) (less + 1)); CEQ(sd[i].get(), (double) (more + 1)); (void) n; }
    }
}
extern "C" void h_union(void) {
    Sym a = mksym(), b = mksym(); UDQSet A = mkset("A", a), B = mkset("B", b);
    UDQSet ua = UDQBinaryFunction::UADD(A, B), um = UDQBinaryFunction::UMUL(A, B), ux = UDQBinaryFunction::UMAX(A, B), un = UDQBinaryFunction::UMIN(A, B);
    for (int i = 0; i < 3; ++i) {
        const bool any = a.d[i] || b.d[i], both = a.d[i] && b.d[i];
        CHECK(ua[i].defined() == any && um[i].defined() == any && ux[i].defined() == any && un[i].defined() == any);     // union: defined where either operand is
        if (both) { CEQ(ua[i].get(), a.v[i] + b.v[i]); CEQ(um[i].get(), a.v[i] * b.v[i]); CEQ(ux[i].get(), a.v[i] > b.v[i] ? a.v[i] : b.v[i]); CEQ(un[i].get(), a.v[i] < b.v[i] ? a.v[i] : b.v[i]); }
        else if (any) { double x = a.d[i] ? a.v[i] : b.v[i]; CEQ(ua[i].get(), x); CEQ(um[i].get(), x); CEQ(ux[i].get(), x); CEQ(un[i].get(), x); }
    }
}

// comparison functions: 1/0 per element, undefined propagates; a relation that holds exactly is reported as holding; a relation that fails by more
// than the tolerance (relative to the magnitude of the left operand) is reported as failing; NE is the complement of EQ; strict comparisons are exact
extern "C" void h_compare(void) {
    Sym a = mksym(true), b = mksym(); const double eps = 1.0e-4;
    UDQSet A = mkset("A", a), B = mkset("B", b);
    UDQSet le = UDQBinaryFunction::LE(eps, A, B), ge = UDQBinaryFunction::GE(eps, A, B), eq = (UDQBinaryFunction::EQ)(eps, A, B), ne = UDQBinaryFunction::NE(eps, A, B);
    UDQSet gt = UDQBinaryFunction::GT(A, B), lt = UDQBinaryFunction::LT(A, B);
    for (int i = 0; i < 3; ++i) {
        const bool def = a.d[i] && b.d[i];
        CHECK(le[i].defined() == def && ge[i].defined() == def && eq[i].defined() == def && ne[i].defined() == def && gt[i].defined() == def && lt[i].defined() == def);
        if (!def) continue;
        const double x = a.v[i], y = b.v[i], mag = x < 0 ? -x : x;
        CHECK(le[i].get() == 0.0 || le[i].get() == 1.0); CHECK(ge[i].get() == 0.0 || ge[i].get() == 1.0); CHECK(eq[i].get() == 0.0 || eq[i].get() == 1.0);
        if (x <= y) CEQ(le[i].get(), 1.0);
        if (x >= y) CEQ(ge[i].get(), 1.0);
        if (x == y) CEQ(eq[i].get(), 1.0);
        if (x - y > 2 * eps * mag) { CEQ(le[i].get(), 0.0); CEQ(eq[i].get(), 0.0); }          // fails by clearly more than the tolerance
        if (y - x > 2 * eps * mag) { CEQ(ge[i].get(), 0.0); CEQ(eq[i].get(), 0.0); }
        CEQ(ne[i].get(), 1.0 - eq[i].get());
        CEQ(gt[i].get(), x > y ? 1.0 : 0.0); CEQ(lt[i].get(), x < y ? 1.0 : 0.0);
    }
}
