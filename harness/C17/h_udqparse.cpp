// C17 (expression level): the real UDQ parser (precedence ladder of UDQParser.cpp) and AST evaluation on scalar expressions
//     a op1 b op2 c      and      a op1 ( b op2 c )
// with symbolic literal values and every pair of arithmetic operators; the value must be the one the documented semantics give:
// parentheses first, then ^, then * and /, then + and -, equal-rank * / + - evaluated left to right.
#include <string>
#include <vector>
#include <cmath>
#include <unordered_map>
#define private public
#include <opm/input/eclipse/Schedule/UDQ/UDQToken.hpp>
#undef private
#include <opm/input/eclipse/Schedule/UDQ/UDQParams.hpp>
#include <opm/input/eclipse/Schedule/UDQ/UDQFunctionTable.hpp>
#include <opm/input/eclipse/Schedule/UDQ/UDQASTNode.hpp>
#include <opm/input/eclipse/Schedule/UDQ/UDQContext.hpp>
#include <opm/input/eclipse/Schedule/UDQ/UDQState.hpp>
#include <opm/input/eclipse/Schedule/UDQ/UDQSet.hpp>
#include <opm/input/eclipse/Schedule/UDQ/UDQEnums.hpp>
#include <opm/input/eclipse/Schedule/UDQ/UDT.hpp>
#include <opm/input/eclipse/Schedule/SummaryState.hpp>
#include <opm/input/eclipse/Schedule/Well/WellMatcher.hpp>
#include <opm/input/eclipse/Parser/ParseContext.hpp>
#include <opm/input/eclipse/Parser/ErrorGuard.hpp>
#include <opm/common/OpmLog/KeywordLocation.hpp>
#include "/repo/opm/input/eclipse/Schedule/UDQ/UDQParser.hpp"
#include <verif.h>
using namespace Opm;
#define CEQ(a, b) CHECK(EQ((a), (b)))
#ifndef OPA
#define OPA 0
#endif
#ifndef OPB
#define OPB 2
#endif
static const char* OPS[9] = { "+", "-", "*", "/", "^", ">", "<", "UADD", "UMUL" };
static const UDQTokenType OPT[9] = { UDQTokenType::binary_op_add, UDQTokenType::binary_op_sub, UDQTokenType::binary_op_mul, UDQTokenType::binary_op_div, UDQTokenType::binary_op_pow,
                                     UDQTokenType::binary_cmp_gt, UDQTokenType::binary_cmp_lt, UDQTokenType::binary_op_uadd, UDQTokenType::binary_op_umul };
static int rank(int op) { return op < 2 ? 0 : op < 4 ? 1 : op == 4 ? 2 : op < 7 ? -1 : -2; }      // ^ > * / > + - > comparisons > union operators
static double apply(int op, double x, double y) {
    if (op == 5 || op == 6) { ASSUME(x - y > 1 || y - x > 1); return (op == 5 ? x > y : x < y) ? 1.0 : 0.0; }     // away from the comparison tolerance
    return (op == 0 || op == 7) ? x + y : op == 1 ? x - y : (op == 2 || op == 8) ? x * y : op == 3 ? x / y : std::pow(x, y);
}
static UDQToken num(double v) { UDQToken t("0", UDQTokenType::number); t.m_value = v; return t; }
static UDQToken op(int k) { return UDQToken(OPS[k], OPT[k]); }
static double evaluate(const UDQParams& params, const UDQFunctionTable& ft, const std::vector<UDQToken>& tokens) {
    ParseContext pc; ErrorGuard eg;
    auto ast = parseUDQExpression(params, UDQVarType::FIELD_VAR, "FU", KeywordLocation{}, tokens, pc, eg);
    CHECK(ast != nullptr);
    SummaryState st(std::time_t{ 0 }); UDQState us(params.undefinedValue()); WellMatcher wm; std::unordered_map<std::string, UDT> tables;
    UDQContext ctx(ft, wm, tables, {}, st, us);
    UDQSet r = ast->eval(UDQVarType::FIELD_VAR, ctx);
    CHECK(r.size() == 1); CHECK(r[0].defined());
    return r[0].get();
}
extern "C" void h_precedence(void) {
    UDQParams params; UDQFunctionTable ft(params);
    double a = verif_nondet_real(), b = verif_nondet_real(), c = verif_nondet_real();
    ASSUME(a > 0 && b > 0 && c > 0);                       // divisors and bases of ^ positive
    // a OPA b OPB c
    const double flat = evaluate(params, ft, { num(a), op(OPA), num(b), op(OPB), num(c) });
    // the higher-ranking operator binds first; equal rank: left to right (two ^ in a row: not ranked by the documentation, any grouping accepted)
    const double left = apply(OPB, apply(OPA, a, b), c), right = apply(OPA, a, apply(OPB, b, c));
    if (rank(OPB) > rank(OPA)) CEQ(flat, right);
    else if (rank(OPA) == rank(OPB) && (OPA >= 4)) CHECK(EQ(flat, left) || EQ(flat, right));     // the documentation ranks left-to-right only * / + -
    else CEQ(flat, left);
    // parentheses override: a OPA ( b OPB c )  and  ( a OPA b ) OPB c
    const UDQToken lp("(", UDQTokenType::open_paren), rp(")", UDQTokenType::close_paren);
    CEQ(evaluate(params, ft, { num(a), op(OPA), lp, num(b), op(OPB), num(c), rp }), right);
    CEQ(evaluate(params, ft, { lp, num(a), op(OPA), num(b), rp, op(OPB), num(c) }), left);
}
