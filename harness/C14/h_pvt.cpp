// C14: piecewise-linear table function (Tabulated1DFunction) and the dead-oil / dry-gas PVT classes built from hand-set tables:
// node honouring, bracketing between nodes, slope = derivative (double and AD argument), extrapolation, viscosity from 1/B and 1/(B mu).
#include <vector>
#include <stdexcept>
#include <verif.h>
#include <opm/material/densead/Evaluation.hpp>
#include <opm/material/densead/Math.hpp>
#include <opm/material/common/MathToolbox.hpp>
#include <opm/material/common/Tabulated1DFunction.hpp>
#include <opm/material/fluidsystems/blackoilpvt/DeadOilPvt.hpp>
#include <opm/material/fluidsystems/blackoilpvt/DryGasPvt.hpp>
#ifndef NT
#define NT 4
#endif
#define CEQ(a, b) CHECK(EQ((a), (b)))
typedef Opm::Tabulated1DFunction<double> Tab;
typedef Opm::DenseAd::Evaluation<double, 1> Ev;
static double mn(double a, double b) { return a < b ? a : b; }
static double mx(double a, double b) { return a > b ? a : b; }

static void mknodes(std::vector<double>& x, std::vector<double>& y, bool positive_y) {
    x.resize(NT); y.resize(NT);
    for (int i = 0; i < NT; ++i) { x[i] = verif_nondet_real(); y[i] = verif_nondet_real(); if (i) ASSUME(x[i] > x[i - 1]); if (positive_y) ASSUME(y[i] > 0); }
}
extern "C" void h_tab_nodes(void) {
    std::vector<double> x, y; mknodes(x, y, false);
    Tab f(x, y);
    CHECK(f.numSamples() == NT); CEQ(f.xMin(), x[0]); CEQ(f.xMax(), x[NT - 1]);
    for (int i = 0; i < NT; ++i) { CEQ(f.eval(x[i]), y[i]); CEQ(f.eval(x[i], true), y[i]); CEQ(f.xAt(i), x[i]); CEQ(f.valueAt(i), y[i]); }
}
extern "C" void h_tab_between(void) {
    std::vector<double> x, y; mknodes(x, y, false);
    Tab f(x, y);
    double p = verif_nondet_real(); ASSUME(p >= x[0] && p <= x[NT - 1]);
    double v = f.eval(p); double d = f.evalDerivative(p);
    for (int i = 0; i + 1 < NT; ++i) {
        if (p >= x[i] && p <= x[i + 1]) {
            CHECK(v >= mn(y[i], y[i + 1]) && v <= mx(y[i], y[i + 1]));                  // bracketed by the node values
            CEQ((v - y[i]) * (x[i + 1] - x[i]), (y[i + 1] - y[i]) * (p - x[i]));          // on the chord
            if (p > x[i] && p < x[i + 1]) CEQ(d * (x[i + 1] - x[i]), y[i + 1] - y[i]);  // derivative = slope of the segment eval uses
        }
    }
    // AD argument: value identical, derivative slot = slope * inner derivative
    Ev pe = Ev::createVariable(p, 0); Ev r = f.eval(pe);
    CEQ(r.value(), v); CEQ(r.derivative(0), d);
    double s = verif_nondet_real(); Ev q = pe * s; if (s > 0 && p > 0) { ASSUME(p * s >= x[0] && p * s <= x[NT - 1]); Ev r2 = f.eval(q); CEQ(r2.derivative(0), f.evalDerivative(p * s) * s); }
}
extern "C" void h_tab_extrapolate(void) {
    std::vector<double> x, y; mknodes(x, y, false);
    Tab f(x, y);
    double p = verif_nondet_real();
    if (p < x[0])      { CEQ((f.eval(p, true) - y[0]) * (x[1] - x[0]), (y[1] - y[0]) * (p - x[0])); CEQ(f.evalDerivative(p, true) * (x[1] - x[0]), y[1] - y[0]); }
    else if (p > x[NT - 1]) { CEQ((f.eval(p, true) - y[NT - 1]) * (x[NT - 1] - x[NT - 2]), (y[NT - 1] - y[NT - 2]) * (p - x[NT - 1])); }
    else CEQ(f.eval(p, true), f.eval(p, false));
    if (p < x[0] || p > x[NT - 1]) { bool threw = false; try { f.eval(p, false); } catch (const std::logic_error&) { threw = true; } CHECK(threw); CHECK(!f.applies(p)); }
    else CHECK(f.applies(p));
}
// unsorted input is sorted by the constructor
extern "C" void h_tab_sorting(void) {
    std::vector<double> x, y; mknodes(x, y, false);
    std::vector<double> xr(x.rbegin(), x.rend()), yr(y.rbegin(), y.rend());
    Tab f(xr, yr, true);
    for (int i = 0; i < NT; ++i) CEQ(f.eval(x[i]), y[i]);
}
// ---- dead oil: 1/B and mu tables given at the same pressures
extern "C" void h_deadoil(void) {
    std::vector<double> p, ib, p2, mu; mknodes(p, ib, true); mu.resize(NT); for (auto& m : mu) { m = verif_nondet_real(); ASSUME(m > 0); }
    Opm::DeadOilPvt<double> pvt; pvt.setNumRegions(1);
    pvt.setInverseOilFormationVolumeFactor(0, Tab(p, ib)); pvt.setOilViscosity(0, Tab(p, mu)); pvt.initEnd();
    const double T = 300.0, Rs = 0.0;
    for (int i = 0; i < NT; ++i) {
        CEQ(pvt.inverseFormationVolumeFactor(0, T, p[i], Rs), ib[i]);
        CEQ(pvt.saturatedInverseFormationVolumeFactor(0, T, p[i]), ib[i]);
        CEQ(pvt.viscosity(0, T, p[i], Rs), mu[i]);
    }
    double q = verif_nondet_real(); ASSUME(q >= p[0] && q <= p[NT - 1]);
    double b = pvt.inverseFormationVolumeFactor(0, T, q, Rs), m = pvt.viscosity(0, T, q, Rs);
    for (int i = 0; i + 1 < NT; ++i) if (q >= p[i] && q <= p[i + 1]) {
        CHECK(b >= mn(ib[i], ib[i + 1]) && b <= mx(ib[i], ib[i + 1]));
        CHECK(m >= mn(mu[i], mu[i + 1]) && m <= mx(mu[i], mu[i + 1]));
    }
    Ev qe = Ev::createVariable(q, 0); Ev be = pvt.inverseFormationVolumeFactor(0, Ev(T), qe, Ev(Rs));
    CEQ(be.value(), b);
    for (int i = 0; i + 1 < NT; ++i) if (q > p[i] && q < p[i + 1]) CEQ(be.derivative(0) * (p[i + 1] - p[i]), ib[i + 1] - ib[i]);
}
extern "C" void h_drygas(void) {
    std::vector<double> p, B, mu; mknodes(p, B, true); mu.resize(NT); for (auto& m : mu) { m = verif_nondet_real(); ASSUME(m > 0); }
    for (int i = 1; i < NT; ++i) ASSUME(B[i] < B[i - 1]);       // physically ordered: Bg decreases with pressure (the class asserts monotonicity)
    std::vector<std::pair<double, double>> pts; for (int i = 0; i < NT; ++i) pts.emplace_back(p[i], B[i]);
    Opm::DryGasPvt<double> pvt; pvt.setNumRegions(1);
    pvt.setGasFormationVolumeFactor(0, pts); pvt.setGasViscosity(0, Tab(p, mu)); pvt.initEnd();
    const double T = 300.0;
    for (int i = 0; i < NT; ++i) {
        CEQ(pvt.inverseFormationVolumeFactor(0, T, p[i], 0.0, 0.0) * B[i], 1.0);
        CEQ(pvt.viscosity(0, T, p[i], 0.0, 0.0), mu[i]);
    }
    double q = verif_nondet_real(); ASSUME(q >= p[0] && q <= p[NT - 1]);
    double b = pvt.inverseFormationVolumeFactor(0, T, q, 0.0, 0.0), m = pvt.viscosity(0, T, q, 0.0, 0.0);
    for (int i = 0; i + 1 < NT; ++i) if (q >= p[i] && q <= p[i + 1]) {
        CHECK(b * B[i] >= 1.0 && b * B[i + 1] <= 1.0);          // 1/B between the node values
        CHECK(m >= mn(mu[i], mu[i + 1]) && m <= mx(mu[i], mu[i + 1]));
    }
}
