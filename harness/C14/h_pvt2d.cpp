// C14 (2-D part): UniformXTabulated2DFunction in its three interpolation policies, and the live-oil / wet-gas PVT classes built the way
// initFromState builds them (appendXPos/appendSamplePoint + the real initEnd): node honouring, the undersaturated surface meets the
// saturated curve, bracketing inside a cell, saturation pressure inverts the saturated Rs/Rv relation (value and AD derivative).
#include <vector>
#include <tuple>
#include <stdexcept>
#include <string>
#include <opm/material/densead/Evaluation.hpp>
#include <opm/material/densead/Math.hpp>
#include <opm/material/common/MathToolbox.hpp>
#include <opm/material/common/Tabulated1DFunction.hpp>
#include <opm/material/common/UniformXTabulated2DFunction.hpp>
#define private public
#include <opm/material/fluidsystems/blackoilpvt/LiveOilPvt.hpp>
#include <opm/material/fluidsystems/blackoilpvt/WetGasPvt.hpp>
#undef private
#include <verif.h>
#ifndef HNX
#define HNX 3
#endif
#ifndef HPOL
#define HPOL 0
#endif
#define CEQ(a, b) CHECK(EQ((a), (b)))
typedef Opm::UniformXTabulated2DFunction<double> Tab2;
typedef Opm::Tabulated1DFunction<double> Tab;
typedef Opm::DenseAd::Evaluation<double, 1> Ev;
static double mn(double a, double b) { return a < b ? a : b; }
static double mx(double a, double b) { return a > b ? a : b; }

// a table with HNX columns of two sample points each; y0[i] < y1[i]; the guide curve (lowest or highest y of each column) is increasing in x
struct Raw { double x[HNX], y0[HNX], y1[HNX], v0[HNX], v1[HNX]; };
static void mkraw(Raw& r, bool increasing_guide_lo, bool increasing_guide_hi) {
    for (int i = 0; i < HNX; ++i) {
        r.x[i] = verif_nondet_real(); r.y0[i] = verif_nondet_real(); r.y1[i] = verif_nondet_real(); r.v0[i] = verif_nondet_real(); r.v1[i] = verif_nondet_real();
        ASSUME(r.y0[i] > 0); ASSUME(r.y1[i] > r.y0[i]); ASSUME(r.v0[i] > 0); ASSUME(r.v1[i] > 0);
        if (i) { ASSUME(r.x[i] > r.x[i - 1]); if (increasing_guide_lo) ASSUME(r.y0[i] > r.y0[i - 1]); if (increasing_guide_hi) ASSUME(r.y1[i] > r.y1[i - 1]); }
    }
}
static void fill(Tab2& t, const Raw& r) {
    for (int i = 0; i < HNX; ++i) { t.appendXPos(r.x[i]); t.appendSamplePoint(i, r.y0[i], r.v0[i]); t.appendSamplePoint(i, r.y1[i], r.v1[i]); }
}

// ---- the table class itself
extern "C" void h_tab2d(void) {
    Raw r; mkraw(r, HPOL == 0, HPOL == 1);
    Tab2 t(HPOL == 0 ? Tab2::LeftExtreme : HPOL == 1 ? Tab2::RightExtreme : Tab2::Vertical);
    fill(t, r);
    CHECK(t.numX() == HNX);
    for (int i = 0; i < HNX; ++i) {     // nodes are honoured
        CEQ(t.eval(r.x[i], r.y0[i], true), r.v0[i]); CEQ(t.eval(r.x[i], r.y1[i], true), r.v1[i]);
        CEQ(t.xAt(i), r.x[i]); CEQ(t.yAt(i, 0), r.y0[i]); CEQ(t.yAt(i, 1), r.y1[i]); CEQ(t.valueAt(i, 0), r.v0[i]); CEQ(t.valueAt(i, 1), r.v1[i]);
        // along a column the function is the chord
        double y = verif_nondet_real(); ASSUME(y > r.y0[i] && y < r.y1[i]);
        CEQ((t.eval(r.x[i], y, true) - r.v0[i]) * (r.y1[i] - r.y0[i]), (r.v1[i] - r.v0[i]) * (y - r.y0[i]));
    }
    // along the guide curve between two columns the function interpolates the guide values linearly ("meets the saturated curve")
    double a = verif_nondet_real(); ASSUME(a > 0 && a < 1);
    int i = (int)verif_concretize(nondet_uint(), HNX - 2);
    double x = r.x[i] * (1 - a) + r.x[i + 1] * a;
    if (HPOL == 0) { double y = r.y0[i] * (1 - a) + r.y0[i + 1] * a; CEQ(t.eval(x, y, true), r.v0[i] * (1 - a) + r.v0[i + 1] * a); }
    if (HPOL == 1) { double y = r.y1[i] * (1 - a) + r.y1[i + 1] * a; CEQ(t.eval(x, y, true), r.v1[i] * (1 - a) + r.v1[i + 1] * a); }
    if (HPOL == 2) { double y = verif_nondet_real(); ASSUME(y >= mx(r.y0[i], r.y0[i + 1]) && y <= mn(r.y1[i], r.y1[i + 1]));
        double l = r.v0[i] + (r.v1[i] - r.v0[i]) * (y - r.y0[i]) / (r.y1[i] - r.y0[i]), u = r.v0[i + 1] + (r.v1[i + 1] - r.v0[i + 1]) * (y - r.y0[i + 1]) / (r.y1[i + 1] - r.y0[i + 1]);
        CEQ(t.eval(x, y, true), l * (1 - a) + u * a); }
    // inside a cell (weights all in [0,1]) the value is bracketed by the four sample values used
    double y = verif_nondet_real(); ASSUME(y > 0);
    unsigned ii, j1, j2; double al, b1, b2; t.findPoints(ii, j1, j2, al, b1, b2, x, y, true);
    CHECK(ii == (unsigned)i); CEQ(al, a);
    if (b1 >= 0 && b1 <= 1 && b2 >= 0 && b2 <= 1) {
        double v = t.eval(x, y, true);
        double lo = mn(mn(r.v0[i], r.v1[i]), mn(r.v0[i + 1], r.v1[i + 1])), hi = mx(mx(r.v0[i], r.v1[i]), mx(r.v0[i + 1], r.v1[i + 1]));
        CHECK(v >= lo && v <= hi);
        // AD: derivative with respect to y equals the slope of the returned function along y (the function is linear in y inside the cell
        // for the Vertical and LeftExtreme policies)
        if (HPOL != 1 && b1 > 0 && b1 < 1 && b2 > 0 && b2 < 1) {
            double h = verif_nondet_real(); ASSUME(h > 0);
            unsigned i2, k1, k2; double al2, c1, c2; t.findPoints(i2, k1, k2, al2, c1, c2, x, y + h, true);
            if (c1 > 0 && c1 < 1 && c2 > 0 && c2 < 1) {
                Ev ye = Ev::createVariable(y, 0); Ev re = t.eval(Ev(x), ye, true);
                CEQ(re.value(), v); CEQ(re.derivative(0) * h, t.eval(x, y + h, true) - v);
            }
        }
    }
}

// AD derivative with respect to the FIRST argument: inside a column interval, for a fixed y, the function is a quadratic in x for the LeftExtreme
// and Vertical policies (weights linear in alpha, sample positions shifted linearly in alpha), so the symmetric difference quotient equals the
// derivative exactly.  (RightExtreme scales the shift by y / yEnd(alpha): a rational function of x - only the value is compared there; a first
// version of this check that applied the quadratic argument to RightExtreme as well raised a false alarm and was corrected.)
extern "C" void h_tab2d_dx(void) {
    Raw r; mkraw(r, HPOL == 0, HPOL == 1);
    Tab2 t(HPOL == 0 ? Tab2::LeftExtreme : HPOL == 1 ? Tab2::RightExtreme : Tab2::Vertical);
    fill(t, r);
    int i = (int)verif_concretize(nondet_uint(), HNX - 2);
    double x = verif_nondet_real(), h = verif_nondet_real(), y = verif_nondet_real();
    ASSUME(h > 0 && x - h > r.x[i] && x + h < r.x[i + 1] && y > 0);
    Ev xe = Ev::createVariable(x, 0); Ev re = t.eval(xe, Ev(y), true);
    CEQ(re.value(), t.eval(x, y, true));
#if HPOL != 1
    CEQ(re.derivative(0) * (2 * h), t.eval(x + h, y, true) - t.eval(x - h, y, true));
#endif
}

// ---- live oil: x = Rs, y = pressure, saturated line = lowest pressure of each column (LeftExtreme)
extern "C" void h_liveoil(void) {
    Raw r; mkraw(r, true, false);            // x = Rs nodes, y0 = saturation pressures (increasing with Rs), y1 = one undersaturated pressure
    double mu0[HNX], mu1[HNX];
    for (int i = 0; i < HNX; ++i) { mu0[i] = verif_nondet_real(); mu1[i] = verif_nondet_real(); ASSUME(mu0[i] > 0 && mu1[i] > 0); ASSUME(r.x[i] >= 0); }
    Opm::LiveOilPvt<double> pvt; pvt.setNumRegions(1);
    std::vector<double> psat, rs, musat;
    for (int i = 0; i < HNX; ++i) {
        pvt.inverseOilBTable_[0].appendXPos(r.x[i]); pvt.oilMuTable_[0].appendXPos(r.x[i]);
        pvt.inverseOilBTable_[0].appendSamplePoint(i, r.y0[i], r.v0[i]); pvt.inverseOilBTable_[0].appendSamplePoint(i, r.y1[i], r.v1[i]);
        pvt.oilMuTable_[0].appendSamplePoint(i, r.y0[i], mu0[i]); pvt.oilMuTable_[0].appendSamplePoint(i, r.y1[i], mu1[i]);
        psat.push_back(r.y0[i]); rs.push_back(r.x[i]); musat.push_back(mu0[i]);
    }
    pvt.saturatedOilMuTable_[0].setXYContainers(psat, musat);
    pvt.saturatedGasDissolutionFactorTable_[0].setXYContainers(psat, rs);
    pvt.initEnd();
    const double T = 300.0;
    for (int i = 0; i < HNX; ++i) {      // tabulated numbers are returned at the nodes
        CEQ(pvt.inverseFormationVolumeFactor(0, T, r.y0[i], r.x[i]), r.v0[i]); CEQ(pvt.inverseFormationVolumeFactor(0, T, r.y1[i], r.x[i]), r.v1[i]);
        CEQ(pvt.viscosity(0, T, r.y0[i], r.x[i]), mu0[i]); CEQ(pvt.viscosity(0, T, r.y1[i], r.x[i]), mu1[i]);
        CEQ(pvt.saturatedGasDissolutionFactor(0, T, r.y0[i]), r.x[i]);
        CEQ(pvt.saturatedInverseFormationVolumeFactor(0, T, r.y0[i]), r.v0[i]); CEQ(pvt.saturatedViscosity(0, T, r.y0[i]), mu0[i]);
    }
    // on the saturated line the undersaturated surface equals the saturated curve
    double p = verif_nondet_real(); ASSUME(p >= r.y0[0] && p <= r.y0[HNX - 1]);
    double rsat = pvt.saturatedGasDissolutionFactor(0, T, p);
    CEQ(pvt.inverseFormationVolumeFactor(0, T, p, rsat), pvt.saturatedInverseFormationVolumeFactor(0, T, p));
    // 1/(B mu) of the 2-D table on the saturated line equals the 1-D saturated table, hence the viscosities agree
    CEQ(pvt.inverseOilBMuTable_[0].eval(rsat, p, true), pvt.inverseSaturatedOilBMuTable_[0].eval(p, true));
    for (int i = 0; i + 1 < HNX; ++i) if (p >= r.y0[i] && p <= r.y0[i + 1]) { CHECK(rsat >= r.x[i] && rsat <= r.x[i + 1]);
        double b = pvt.saturatedInverseFormationVolumeFactor(0, T, p); CHECK(b >= mn(r.v0[i], r.v0[i + 1]) && b <= mx(r.v0[i], r.v0[i + 1])); }
}
// pressure nodes of the saturated table: symbolic, or (PSFIXED) at fixed non-uniform positions so that the Newton iteration stays within
// linear arithmetic in the symbolic Rs/Rv values (three symbolic positions make the queries non-linear beyond what z3 decides)
static double psnode(int i) {
#ifdef PSFIXED
    // no node coincides with a sampling point of updateSaturationPressure_ (xMin + k (xMax - xMin) / (n + 1))
    static const double fixed[6] = { 1.0, 2.5, 5.0, 7.0, 12.0, 13.0 }; return fixed[i];
#else
    return verif_nondet_real();
#endif
}
// saturation pressure inverts the saturated Rs relation; its AD derivative is the reciprocal slope
extern "C" void h_liveoil_psat(void) {
    double ps[HNX], rsv[HNX];
    for (int i = 0; i < HNX; ++i) { ps[i] = psnode(i); rsv[i] = verif_nondet_real(); ASSUME(ps[i] > 0 && rsv[i] > 0); if (i) { ASSUME(ps[i] > ps[i - 1]); ASSUME(rsv[i] - rsv[i - 1] > 1e-20 * (ps[i] - ps[i - 1])); } }   // slope above the 1e-30 'flat table' escape of the Newton loop
    Opm::LiveOilPvt<double> pvt; pvt.setNumRegions(1);
    pvt.saturatedGasDissolutionFactorTable_[0].setXYContainers(std::vector<double>(ps, ps + HNX), std::vector<double>(rsv, rsv + HNX));
    pvt.updateSaturationPressure_(0);
    double q = verif_nondet_real(); ASSUME(q > rsv[0] && q < rsv[HNX - 1]);
    for (int i = 0; i < HNX; ++i) ASSUME(q != rsv[i]);                    // derivative defined
    Ev qe = Ev::createVariable(q, 0);
    Ev pe = pvt.saturationPressure(0, Ev(300.0), qe);
    // the Newton iteration stops when the last correction is below 2.2e-10 |pSat|: the answer is exact (the table is piecewise linear) unless that
    // last step crossed a node, which needs the result to lie within that distance of a node - excluded here
    for (int i = 0; i < HNX; ++i) ASSUME(pe.value() - ps[i] > 1e-9 * pe.value() || ps[i] - pe.value() > 1e-9 * pe.value());
    CEQ(pvt.saturatedGasDissolutionFactor(0, 300.0, pe.value()), q);
    double slope = pvt.saturatedGasDissolutionFactorTable_[0].evalDerivative(pe.value(), true);
    CEQ(pe.derivative(0) * slope, 1.0);
#ifdef PSAT_SCALAR
    CEQ(pvt.saturationPressure(0, 300.0, q), pe.value());          // the plain-double instantiation agrees with the AD one (thorough tier: it repeats the whole Newton exploration)
#endif
}

// ---- wet gas: x = pressure, y = Rv, saturated line = highest Rv of each column (RightExtreme)
extern "C" void h_wetgas(void) {
    Raw r; mkraw(r, false, true);            // x = pressure nodes, y1 = saturated Rv (increasing with pressure), y0 = one undersaturated Rv
    double mu0[HNX], mu1[HNX];
    for (int i = 0; i < HNX; ++i) { mu0[i] = verif_nondet_real(); mu1[i] = verif_nondet_real(); ASSUME(mu0[i] > 0 && mu1[i] > 0); ASSUME(r.x[i] > 0); }
    Opm::WetGasPvt<double> pvt; pvt.setNumRegions(1);
    std::vector<double> pp, rvs;
    for (int i = 0; i < HNX; ++i) {
        pvt.inverseGasB_[0].appendXPos(r.x[i]); pvt.gasMu_[0].appendXPos(r.x[i]);
        pvt.inverseGasB_[0].appendSamplePoint(i, r.y0[i], r.v0[i]); pvt.inverseGasB_[0].appendSamplePoint(i, r.y1[i], r.v1[i]);
        pvt.gasMu_[0].appendSamplePoint(i, r.y0[i], mu0[i]); pvt.gasMu_[0].appendSamplePoint(i, r.y1[i], mu1[i]);
        pp.push_back(r.x[i]); rvs.push_back(r.y1[i]);
    }
    pvt.saturatedOilVaporizationFactorTable_[0].setXYContainers(pp, rvs);
    pvt.initEnd();
    const double T = 300.0;
    for (int i = 0; i < HNX; ++i) {
        CEQ(pvt.inverseFormationVolumeFactor(0, T, r.x[i], r.y0[i], 0.0), r.v0[i]); CEQ(pvt.inverseFormationVolumeFactor(0, T, r.x[i], r.y1[i], 0.0), r.v1[i]);
        CEQ(pvt.viscosity(0, T, r.x[i], r.y0[i], 0.0), mu0[i]); CEQ(pvt.viscosity(0, T, r.x[i], r.y1[i], 0.0), mu1[i]);
        CEQ(pvt.saturatedOilVaporizationFactor(0, T, r.x[i]), r.y1[i]);
        CEQ(pvt.saturatedInverseFormationVolumeFactor(0, T, r.x[i]), r.v1[i]); CEQ(pvt.saturatedViscosity(0, T, r.x[i]), mu1[i]);
    }
    double p = verif_nondet_real(); ASSUME(p >= r.x[0] && p <= r.x[HNX - 1]);
    double rvsat = pvt.saturatedOilVaporizationFactor(0, T, p);
    CEQ(pvt.inverseFormationVolumeFactor(0, T, p, rvsat, 0.0), pvt.saturatedInverseFormationVolumeFactor(0, T, p));
    CEQ(pvt.inverseGasBMu_[0].eval(p, rvsat, true), pvt.inverseSaturatedGasBMu_[0].eval(p, true));
    // dry limit: Rv = 0 lies on the y = 0 line where the guide shift vanishes: value = plain interpolation between the two columns at Rv = 0
    for (int i = 0; i + 1 < HNX; ++i) if (p >= r.x[i] && p <= r.x[i + 1]) {
        double a = (p - r.x[i]) / (r.x[i + 1] - r.x[i]);
        double l = r.v0[i] + (r.v1[i] - r.v0[i]) * (0 - r.y0[i]) / (r.y1[i] - r.y0[i]), u = r.v0[i + 1] + (r.v1[i + 1] - r.v0[i + 1]) * (0 - r.y0[i + 1]) / (r.y1[i + 1] - r.y0[i + 1]);
        CEQ(pvt.inverseFormationVolumeFactor(0, T, p, 0.0, 0.0), l * (1 - a) + u * a);
    }
}
extern "C" void h_wetgas_psat(void) {
    double ps[HNX], rvv[HNX];
    for (int i = 0; i < HNX; ++i) { ps[i] = psnode(i); rvv[i] = verif_nondet_real(); ASSUME(ps[i] > 0 && rvv[i] > 0); if (i) { ASSUME(ps[i] > ps[i - 1]); ASSUME(rvv[i] - rvv[i - 1] > 1e-20 * (ps[i] - ps[i - 1])); } }
    Opm::WetGasPvt<double> pvt; pvt.setNumRegions(1);
    pvt.saturatedOilVaporizationFactorTable_[0].setXYContainers(std::vector<double>(ps, ps + HNX), std::vector<double>(rvv, rvv + HNX));
    pvt.updateSaturationPressure_(0);
    double q = verif_nondet_real(); ASSUME(q > rvv[0] && q < rvv[HNX - 1]);
    for (int i = 0; i < HNX; ++i) ASSUME(q != rvv[i]);
    Ev qe = Ev::createVariable(q, 0);
    Ev pe = pvt.saturationPressure(0, Ev(300.0), qe);
    for (int i = 0; i < HNX; ++i) ASSUME(pe.value() - ps[i] > 1e-9 * pe.value() || ps[i] - pe.value() > 1e-9 * pe.value());
    CEQ(pvt.saturatedOilVaporizationFactor(0, 300.0, pe.value()), q);
    double slope = pvt.saturatedOilVaporizationFactorTable_[0].evalDerivative(pe.value(), true);
    CEQ(pe.derivative(0) * slope, 1.0);
}
