// C14: the closed-form PVT models of PVTW (ConstantCompressibilityWaterPvt) and PVCDO (ConstantCompressibilityOilPvt): the table record is
// honoured at the reference pressure, B(p) and (B mu)(p) follow the documented formulas  B = Bref / (1 + X + X^2/2), X = C (p - pref) and
// B mu = Bref muref / (1 + Y + Y^2/2), Y = (C - Cv)(p - pref), the different entry points agree, and the AD derivative is the slope.
#include <vector>
#include <verif.h>
#include <opm/material/densead/Evaluation.hpp>
#include <opm/material/densead/Math.hpp>
#include <opm/material/common/MathToolbox.hpp>
#include <opm/material/fluidsystems/blackoilpvt/ConstantCompressibilityWaterPvt.hpp>
#include <opm/material/fluidsystems/blackoilpvt/ConstantCompressibilityOilPvt.hpp>
#define CEQ(a, b) CHECK(EQ((a), (b)))
typedef Opm::DenseAd::Evaluation<double, 1> Ev;
struct Rec { double pref, Bref, C, mu, Cv, p; };
static Rec mkrec() {
    Rec r { verif_nondet_real(), verif_nondet_real(), verif_nondet_real(), verif_nondet_real(), verif_nondet_real(), verif_nondet_real() };
    ASSUME(r.Bref > 0 && r.mu > 0 && r.C >= 0 && r.Cv >= 0);
    const double X = r.C * (r.p - r.pref), Y = (r.C - r.Cv) * (r.p - r.pref);
    ASSUME(X > -0.5 && X < 0.5 && Y > -0.5 && Y < 0.5);            // the physical range: compressibility times pressure difference is small
    return r;
}
extern "C" void h_water(void) {
    const Rec r = mkrec();
    Opm::ConstantCompressibilityWaterPvt<double> pvt; pvt.setNumRegions(1);
    pvt.setReferencePressure(0, r.pref); pvt.setReferenceFormationVolumeFactor(0, r.Bref); pvt.setCompressibility(0, r.C);
    pvt.setViscosity(0, r.mu); pvt.setViscosibility(0, r.Cv); pvt.initEnd();
    const double T = 300.0, z = 0.0;
    // the record itself
    CEQ(pvt.inverseFormationVolumeFactor(0, T, r.pref, z, z) * r.Bref, 1.0); CEQ(pvt.viscosity(0, T, r.pref, z, z), r.mu); CEQ(pvt.saturatedViscosity(0, T, r.pref, z), r.mu);
    // away from the reference pressure
    const double X = r.C * (r.p - r.pref), Y = (r.C - r.Cv) * (r.p - r.pref);
    const double b = pvt.inverseFormationVolumeFactor(0, T, r.p, z, z), m = pvt.viscosity(0, T, r.p, z, z);
    CEQ(b * r.Bref, 1 + X + X * X / 2);
    CEQ(m * (1 + Y + Y * Y / 2), r.Bref * r.mu * b);
    CEQ(pvt.saturatedViscosity(0, T, r.p, z), m); CEQ(pvt.saturatedInverseFormationVolumeFactor(0, T, r.p, z), b);
    double b2, m2; pvt.inverseBAndMu(b2, m2, 0, T, r.p, z, z); CEQ(b2, b); CEQ(m2, m);
    // AD: value and slope
    const Ev pe = Ev::createVariable(r.p, 0);
    const Ev be = pvt.inverseFormationVolumeFactor(0, Ev(T), pe, Ev(z), Ev(z)), me = pvt.viscosity(0, Ev(T), pe, Ev(z), Ev(z));
    CEQ(be.value(), b); CEQ(me.value(), m);
    CEQ(be.derivative(0) * r.Bref, r.C * (1 + X));
    CEQ(me.derivative(0) * (1 + Y + Y * Y / 2) + m * (r.C - r.Cv) * (1 + Y), r.Bref * r.mu * be.derivative(0));     // derivative of  m D = Bref muref b
}
extern "C" void h_ccoil(void) {
    const Rec r = mkrec();
    Opm::ConstantCompressibilityOilPvt<double> pvt; pvt.setNumRegions(1);
    pvt.setReferencePressure(0, r.pref); pvt.setReferenceFormationVolumeFactor(0, r.Bref); pvt.setCompressibility(0, r.C);
    pvt.setViscosity(0, r.mu); pvt.setViscosibility(0, r.Cv); pvt.initEnd();
    const double T = 300.0, z = 0.0;
    CEQ(pvt.inverseFormationVolumeFactor(0, T, r.pref, z) * r.Bref, 1.0); CEQ(pvt.viscosity(0, T, r.pref, z), r.mu); CEQ(pvt.saturatedViscosity(0, T, r.pref), r.mu);
    const double X = r.C * (r.p - r.pref), Y = (r.C - r.Cv) * (r.p - r.pref);
    const double b = pvt.inverseFormationVolumeFactor(0, T, r.p, z), m = pvt.viscosity(0, T, r.p, z);
    CEQ(b * r.Bref, 1 + X + X * X / 2);
    CEQ(m * (1 + Y + Y * Y / 2), r.Bref * r.mu * b);
    CEQ(pvt.saturatedViscosity(0, T, r.p), m); CEQ(pvt.saturatedInverseFormationVolumeFactor(0, T, r.p), b);
    const Ev pe = Ev::createVariable(r.p, 0);
    const Ev be = pvt.inverseFormationVolumeFactor(0, Ev(T), pe, Ev(z)), me = pvt.viscosity(0, Ev(T), pe, Ev(z));
    CEQ(be.value(), b); CEQ(me.value(), m);
    CEQ(be.derivative(0) * r.Bref, r.C * (1 + X));
    CEQ(me.derivative(0) * (1 + Y + Y * Y / 2) + m * (r.C - r.Cv) * (1 + Y), r.Bref * r.mu * be.derivative(0));
}
