EXPLANATION = ('C14: Tabulated1DFunction (setXYContainers/sorting, findSegmentIndex incl. bisection, eval, evalDerivative, extrapolation) and DeadOilPvt / DryGasPvt built from hand-set tables '
  '(initEnd 1/(B mu) tabulation, inverseFormationVolumeFactor, viscosity) with symbolic nodes and evaluation point, double and AD arguments.')
BOUNDS = 'tables with 3, 4 and 5 (thorough: 6) strictly increasing nodes, all real node values (y > 0 for PVT), evaluation point anywhere in / outside the range'
OUTSIDE = 'initFromState (table extension, unit conversion from an EclipseState), live-oil / wet-gas 2D tables and the saturation-pressure Newton iteration, PVTW/PVCDO closed forms, IEEE rounding'
ASSUMPTIONS = ['doubles as reals']
TUS = ['opm/material/fluidsystems/blackoilpvt/DeadOilPvt.cpp', 'opm/material/fluidsystems/blackoilpvt/DryGasPvt.cpp']
def jobs(tier):
    out = []
    for n in ((3, 4, 5) if tier == 'quick' else (2, 3, 4, 5, 6)):
        out.append(dict(name='tab1d_n%d' % n, src='h_pvt.cpp', defs={'NT': n}, entry='h_tab_nodes,h_tab_between,h_tab_extrapolate,h_tab_sorting', tus=[], fp='real', loopmax=2000, maxsteps=4000000, bounds='%d nodes' % n))
    for n in ((3, 4) if tier == 'quick' else (2, 3, 4, 5)):
        out.append(dict(name='pvt_n%d' % n, src='h_pvt.cpp', defs={'NT': n}, entry='h_deadoil,h_drygas', tus=TUS, fp='real', loopmax=2000, maxsteps=4000000, bounds='%d pressure nodes' % n))
    return out
