EXPLANATION = ('C14: UniformXTabulated2DFunction in its three interpolation policies and LiveOilPvt / WetGasPvt filled the way initFromState fills them (appendXPos/appendSamplePoint, real initEnd): node honouring, the undersaturated surface meets the saturated curve, bracketing, saturation pressure inverts the saturated Rs/Rv relation incl. its AD derivative; Tabulated1DFunction (setXYContainers/sorting, findSegmentIndex incl. bisection, eval, evalDerivative, extrapolation) and DeadOilPvt / DryGasPvt built from hand-set tables '
  '(initEnd 1/(B mu) tabulation, inverseFormationVolumeFactor, viscosity) with symbolic nodes and evaluation point, double and AD arguments.')
BOUNDS = '2-D tables: 2 (thorough 3) columns x 2 samples, all real values; 1-D tables with 3, 4 and 5 (thorough: 6) strictly increasing nodes, all real node values (y > 0 for PVT), evaluation point anywhere in / outside the range'
OUTSIDE = 'initFromState reading of PVTO/PVTG tables from an EclipseState (table extension for single-row columns, unit conversion), more than two samples per 2-D column, IEEE rounding; saturation pressure: result within 1e-9 (relative) of a table node and tables flatter than 1e-20 excluded (the Newton loop documents both escapes)'
ASSUMPTIONS = ['doubles as reals']
TUS = ['opm/material/fluidsystems/blackoilpvt/DeadOilPvt.cpp', 'opm/material/fluidsystems/blackoilpvt/DryGasPvt.cpp']
def jobs(tier):
    out = []
    for n in ((3, 4, 5) if tier == 'quick' else (2, 3, 4, 5, 6)):
        out.append(dict(name='tab1d_n%d' % n, src='h_pvt.cpp', defs={'NT': n}, entry='h_tab_nodes,h_tab_between,h_tab_extrapolate,h_tab_sorting', tus=[], fp='real', loopmax=2000, maxsteps=4000000, bounds='%d nodes' % n))
    for n in ((3, 4) if tier == 'quick' else (2, 3, 4, 5)):
        out.append(dict(name='pvt_n%d' % n, src='h_pvt.cpp', defs={'NT': n}, entry='h_deadoil,h_drygas', tus=TUS, fp='real', loopmax=2000, maxsteps=4000000, bounds='%d pressure nodes' % n))
    T2 = ['opm/material/fluidsystems/blackoilpvt/LiveOilPvt.cpp', 'opm/material/fluidsystems/blackoilpvt/WetGasPvt.cpp']
    for nx in ((2,) if tier == 'quick' else (2, 3)):
        for pol in (0, 1, 2):
            if nx == 3 and pol == 1: continue      # RightExtreme with three columns: z3 gives up on the guide-curve identity (stated in DESIGN.md); two columns are decided
            out.append(dict(name='tab2d_nx%d_pol%d' % (nx, pol), src='h_pvt2d.cpp', defs={'HNX': nx, 'HPOL': pol}, entry='h_tab2d,h_tab2d_dx', tus=[], fp='real', loopmax=2000, maxsteps=8000000, timeout=900,
                            bounds='%d columns x 2 samples, policy %s' % (nx, ('LeftExtreme', 'RightExtreme', 'Vertical')[pol])))
        out.append(dict(name='liveoil_nx%d' % nx, src='h_pvt2d.cpp', defs={'HNX': nx}, entry='h_liveoil', tus=T2, fp='real', loopmax=2000, maxsteps=8000000, timeout=900, bounds='%d Rs nodes x 2 pressures' % nx))
        out.append(dict(name='wetgas_nx%d' % nx, src='h_pvt2d.cpp', defs={'HNX': nx}, entry='h_wetgas', tus=T2, fp='real', loopmax=2000, maxsteps=8000000, timeout=900, bounds='%d pressure nodes x 2 Rv' % nx))
    for fam in ('liveoil', 'wetgas'):
        out.append(dict(name='psat_%s_nx3' % fam, src='h_pvt2d.cpp', defs=({'HNX': 3, 'PSFIXED': 1} if tier == 'quick' else {'HNX': 3, 'PSFIXED': 1, 'PSAT_SCALAR': 1}), entry='h_%s_psat' % fam, tus=T2, fp='real', loopmax=2000, maxsteps=8000000, timeout=900, bounds='3 nodes, pressure nodes at fixed positions 1, 2.5, 5, Rs/Rv values symbolic'))
    if tier != 'quick':
        out.append(dict(name='psat_nx2', src='h_pvt2d.cpp', defs={'HNX': 2}, entry='h_liveoil_psat,h_wetgas_psat', tus=T2, fp='real', loopmax=2000, maxsteps=8000000, timeout=900, bounds='2 nodes, all symbolic'))
    out.append(dict(name='closed_form', src='h_ccpvt.cpp', defs={}, entry='h_water,h_ccoil', tus=['opm/material/fluidsystems/blackoilpvt/ConstantCompressibilityWaterPvt.cpp', 'opm/material/fluidsystems/blackoilpvt/ConstantCompressibilityOilPvt.cpp'],
                    fp='real', loopmax=2000, maxsteps=4000000, bounds='all real PVTW / PVCDO records with |C (p - pref)| < 1/2 and |(C - Cv)(p - pref)| < 1/2'))
    return out
