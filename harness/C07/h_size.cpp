// C07 (size arithmetic used for seeking): sizeOnDiskBinary / sizeOnDiskFormatted against the number of bytes a reference
// encoder of the published layout emits, for EVERY length n < 2^40 (closed form, no loop); X231 header split/recombine.
#include <cstdint>
#include <string>
#include <fstream>
#include <verif.h>
#include <memfile.h>
#include <opm/io/eclipse/EclUtil.hpp>
#include <opm/io/eclipse/EclIOdata.hpp>
using namespace Opm::EclIO;
#ifndef ARRT
#define ARRT 0
#endif
#ifndef ELSZ
#define ELSZ 8
#endif
// reference: Fortran records holding at most `per` elements, 4-byte head and tail each
static uint64_t ref_bin(uint64_t n, uint64_t elsz, uint64_t per) { uint64_t full = n / per, rest = n % per; return full * (per * elsz + 8) + (rest ? rest * elsz + 8 : 0); }
// reference: text columns of width w, c per line, hard break after every blk elements; every started line ends with '\n'
static uint64_t ref_fmt(uint64_t n, uint64_t blk, uint64_t c, uint64_t w) {
    uint64_t full = n / blk, rest = n % blk;
    uint64_t lines_full = (blk + c - 1) / c, lines_rest = (rest + c - 1) / c;
    return full * (blk * w + lines_full) + rest * w + lines_rest;
}
extern "C" void h_size_bin(void) {
    int64_t n = nondet_long(); ASSUME(n >= 0 && n < (1LL << 40));
    const eclArrType t = (eclArrType) ARRT;
    uint64_t got = sizeOnDiskBinary(n, t, ELSZ);
    uint64_t elsz = (t == DOUB) ? 8 : (t == CHAR) ? 8 : (t == C0NN) ? ELSZ : 4;
    uint64_t per = (t == CHAR || t == C0NN) ? 105 : 1000;
    CHECK(got == ref_bin((uint64_t) n, elsz, per));
}
extern "C" void h_size_fmt(void) {
    int64_t n = nondet_long(); ASSUME(n >= 0 && n < (1LL << 31));   // the formatted header carries an int count
    const eclArrType t = (eclArrType) ARRT;
    uint64_t got = sizeOnDiskFormatted(n, t, ELSZ);
    uint64_t blk = (t == CHAR || t == C0NN) ? 105 : 1000;
    uint64_t c = t == INTE ? 6 : t == REAL ? 4 : t == DOUB ? 3 : t == LOGI ? 25 : t == CHAR ? 7 : (80 / (ELSZ + 3) ? 80 / (ELSZ + 3) : 1);      // strings wider than a line: one per line
    uint64_t w = t == INTE ? 12 : t == REAL ? 17 : t == DOUB ? 23 : t == LOGI ? 3 : t == CHAR ? 11 : ELSZ + 3;
    CHECK(got == ref_fmt((uint64_t) n, blk, c, w));
}
extern "C" void h_size_mess(void) {
    CHECK(sizeOnDiskBinary(0, MESS, 4) == 0); CHECK(sizeOnDiskFormatted(0, MESS, 4) == 0);
    bool threw = false; try { sizeOnDiskBinary(1, MESS, 4); } catch (const std::invalid_argument&) { threw = true; } CHECK(threw);
}
// summary NUMS packing
extern "C" void h_combine(void) {
    int a = nondet_int(), b = nondet_int(); ASSUME(a >= 0 && a < (1 << 15) && b >= -10 && b < (1 << 15));
    auto [x, y] = splitSummaryNumber(combineSummaryNumbers(a, b)); CHECK(x == a && y == b);
}
// endian flips are involutions and reverse the bytes
extern "C" void h_flip(void) {
    int v = nondet_int(); CHECK(flipEndianInt(flipEndianInt(v)) == v);
    uint32_t u = (uint32_t) v, f = (uint32_t) flipEndianInt(v);
    CHECK((f & 0xff) == (u >> 24) && ((f >> 8) & 0xff) == ((u >> 16) & 0xff) && ((f >> 16) & 0xff) == ((u >> 8) & 0xff) && (f >> 24) == (u & 0xff));
    int64_t w = nondet_long(); CHECK(flipEndianLongInt(flipEndianLongInt(w)) == w);
    uint64_t uw = (uint64_t) w, fw = (uint64_t) flipEndianLongInt(w); CHECK((fw & 0xff) == (uw >> 56) && (fw >> 56) == (uw & 0xff) && ((fw >> 8) & 0xff) == ((uw >> 48) & 0xff));
}
