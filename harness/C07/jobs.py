EXPLANATION = ('C07: the real Eclipse array writer (EclOutput::write/message and the private binary/formatted writers) and the real readers '
  '(readBinaryHeader, readBinary*Array, readFormatted*) are executed symbolically on an in-memory file with symbolic element values; the bytes are '
  'compared with an independent reference codec written from the published layout, the reader output with the original values, and the size arithmetic '
  '(sizeOnDiskBinary/Formatted) with the reference encoder for every length < 2^40.')
BOUNDS = 'element values fully symbolic (all bit patterns); array lengths concrete per harness from {0,1,2,999,1000,1001,2001} (numeric) / {0,1,104,105,106,211} (strings); sizeOnDisk*: every n < 2^40 symbolically'
OUTSIDE = 'decimal conversion in snprintf/stod, std::setw internals, files with more than 2^40 elements, lengths not listed (covered only through the closed-form size arithmetic)'
ASSUMPTIONS = ['std::ofstream/std::fstream members are replaced by the memfile stream model of engine/cxxrt.py (write/read/seek/tell, width/fill for formatted insertion)',
               'the EclOutput object is laid out by the harness (isFormatted, ix_standard set directly; constructor that opens a file not run)']
TUS = ['opm/io/eclipse/EclOutput.cpp', 'opm/io/eclipse/EclUtil.cpp']

def jobs(tier):
    out = []
    nums = [0, 1, 2, 1000, 1001] if tier == 'quick' else [0, 1, 2, 3, 999, 1000, 1001, 1999, 2000, 2001, 2002]
    for ent, fp in (('h_inte', 'real'), ('h_real', 'ieee'), ('h_doub', 'ieee'), ('h_logi', 'real')):
        for n in nums:
            for ix in ((0, 1) if ent == 'h_logi' and n in (2, 1001) else (0,)):
                out.append(dict(name='bin_%s_n%d%s' % (ent[2:], n, '_ix' if ix else ''), src='h_eclbin.cpp', defs={'NELEM': n, 'IX': ix}, entry=ent, tus=TUS, fp=fp,
                                loopmax=20000, maxsteps=6000000, partial_sites=(n == 0), bounds='n=%d, all element bit patterns' % n))
    snums = [0, 1, 105, 106] if tier == 'quick' else [0, 1, 2, 104, 105, 106, 210, 211, 212]
    for n in snums:
        for elsz in ((8, 12) if tier == 'quick' else (8, 9, 12, 16)):
            out.append(dict(name='bin_char_n%d_e%d' % (n, elsz), src='h_eclbin.cpp', defs={'NELEM': n, 'ELSZ': elsz}, entry='h_char', tus=TUS, fp='real',
                            loopmax=20000, maxsteps=6000000, partial_sites=(n == 0), bounds='n=%d strings of element size %d, symbolic printable characters' % (n, elsz)))
    for n, elsz in (((1, 99), (2, 100)) if tier == 'quick' else ((1, 99), (2, 100), (1, 128), (106, 100))):
        out.append(dict(name='bin_char_n%d_e%d' % (n, elsz), src='h_eclbin.cpp', defs={'NELEM': n, 'ELSZ': elsz}, entry='h_char', tus=TUS, fp='real',
                        loopmax=40000, maxsteps=20000000, bounds='n=%d strings of element size %d (two- and three-digit C0nn tags), symbolic printable characters' % (n, elsz)))
    # closed-form size arithmetic, every n (types: INTE 0 REAL 1 DOUB 2 CHAR 3 LOGI 4 C0NN 6)
    for t, tn in ((0, 'inte'), (1, 'real'), (2, 'doub'), (3, 'char'), (4, 'logi')):
        out.append(dict(name='size_%s' % tn, src='h_size.cpp', defs={'ARRT': t}, entry='h_size_bin,h_size_fmt', tus=['opm/io/eclipse/EclUtil.cpp'], fp='real', bounds='every n < 2^40 (binary) / < 2^31 (formatted)'))
    for es in ((9, 16, 40, 77, 99) if tier == 'quick' else (9, 10, 11, 12, 16, 24, 32, 40, 64, 77, 99)):
        out.append(dict(name='size_c0nn_%d' % es, src='h_size.cpp', defs={'ARRT': 6, 'ELSZ': es}, entry='h_size_bin,h_size_fmt', tus=['opm/io/eclipse/EclUtil.cpp'], fp='real', bounds='C0NN element size %d, every n' % es))
    out.append(dict(name='size_misc', src='h_size.cpp', defs={}, entry='h_size_mess,h_combine,h_flip', tus=['opm/io/eclipse/EclUtil.cpp'], fp='real'))
    # formatted writer / readers: text layout, column and block breaks (values concrete for INTE, symbolic flags / characters for LOGI / CHAR)
    for n in ((0, 1, 6, 7, 1001) if tier == 'quick' else (0, 1, 5, 6, 7, 12, 999, 1000, 1001, 1006, 2001)):
        out.append(dict(name='fmt_inte_n%d' % n, src='h_eclfmt.cpp', defs={'NELEM': n}, entry='h_fmt_inte', tus=TUS, fp='real', loopmax=40000, maxsteps=20000000, partial_sites=(n == 0), bounds='n=%d, fixed value pattern incl. INT_MIN/INT_MAX' % n))
    for n in ((0, 25, 26, 1001) if tier == 'quick' else (0, 1, 24, 25, 26, 50, 1000, 1001, 1026)):
        out.append(dict(name='fmt_logi_n%d' % n, src='h_eclfmt.cpp', defs={'NELEM': n}, entry='h_fmt_logi', tus=TUS, fp='real', loopmax=40000, maxsteps=20000000, partial_sites=(n == 0), bounds='n=%d, first/last/1000th element symbolic' % n))
    for n, es in (((0, 8), (7, 8), (8, 8), (113, 8), (112, 9), (110, 14), (4, 16), (3, 99)) if tier == 'quick' else ((0, 8), (1, 8), (7, 8), (8, 8), (105, 8), (106, 8), (113, 8), (211, 8), (106, 9), (112, 9), (212, 9), (107, 14), (110, 14), (4, 16), (109, 24), (5, 77), (107, 77), (3, 78), (3, 99), (107, 99))):
        out.append(dict(name='fmt_char_n%d_e%d' % (n, es), src='h_eclfmt.cpp', defs={'NELEM': n, 'ELSZ': es}, entry='h_fmt_char', tus=TUS, fp='real', loopmax=40000, maxsteps=20000000, partial_sites=(n == 0),
                        bounds='n=%d strings of element size %d; characters of the first two and the last strings symbolic' % (n, es)))
    out.append(dict(name='fmt_doub_real', src='h_eclfmt.cpp', defs={'NELEM': 0}, entry='h_fmt_doub', tus=TUS, fp='ieee', loopmax=40000, maxsteps=20000000, bounds='21 concrete doubles (incl. DBL_MIN, the smallest subnormal, DBL_MAX) and 11 concrete floats reaching every branch of the mantissa/exponent surgery (snprintf/strtod exact on concrete values)'))
    out.append(dict(name='bin_mess', src='h_eclbin.cpp', defs={'NELEM': 0}, entry='h_mess', tus=TUS, fp='real', loopmax=2000))
    return out
