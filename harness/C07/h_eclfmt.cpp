// C07 (formatted files): real formatted writer (header, INTE, LOGI, CHAR/C0nn) against a reference formatter of the published text layout,
// the size arithmetic used for seeking, and the real formatted readers on the produced text.
#include <cstring>
#include <cstdint>
#include <string>
#include <vector>
#include <fstream>
#include <functional>
#include <verif.h>
#include <memfile.h>
#define private public
#define protected public
#include <opm/io/eclipse/EclOutput.hpp>
#undef private
#undef protected
#include <opm/io/eclipse/EclUtil.hpp>
#include <opm/io/eclipse/EclIOdata.hpp>
using namespace Opm::EclIO;
#ifndef NELEM
#define NELEM 7
#endif
#ifndef ELSZ
#define ELSZ 8
#endif
alignas(16) static unsigned char out_storage[sizeof(EclOutput)];
static EclOutput* make_writer() {
#ifdef VERIF_NATIVE
    return new EclOutput(verif_memfile_path(1), true, std::ios::out);
#endif
    EclOutput* out = reinterpret_cast<EclOutput*>(out_storage);
    out->isFormatted = true; out->ix_standard = false;
    verif_stream_bind(&out->ofileH, 1, 0);
    return out;
}
struct Ref { long pos = 0; bool ok = true;
    void ch(char c) { if (pos >= verif_memfile_size(1) || (char) verif_memfile_byte(1, pos) != c) ok = false; ++pos; }
    void str(const std::string& s) { for (char c : s) ch(c); }
    void rjust(const std::string& s, int w) { for (int i = (int) s.size(); i < w; ++i) ch(' '); str(s); }
    void header(const char* name8, long count, const char* type4) { str(" '"); str(name8); str("' "); rjust(std::to_string(count), 11); str(" '"); str(type4); str("'"); ch('\n'); }
};
// elements in columns of width w, c per line, hard line break after every blk elements and at the end of the array
template <class F> static void ref_columns(Ref& r, long n, int c, long blk, F elem) {
    long inblk = 0, inline_ = 0;
    for (long i = 0; i < n; ++i) { elem(i); ++inblk; ++inline_; if (inline_ == c || inblk == blk || i + 1 == n) { r.ch('\n'); inline_ = 0; } if (inblk == blk) inblk = 0; }
}
static std::string file_text() { long n = verif_memfile_size(1); std::string s(n, ' '); for (long i = 0; i < n; ++i) s[i] = (char) verif_memfile_byte(1, i); return s; }

extern "C" void h_fmt_inte(void) {
    std::vector<int> data(NELEM);
    for (long i = 0; i < NELEM; ++i) data[i] = (i % 5 == 0) ? (int) (-2147483647 - 1 + i) : (i % 5 == 1 ? 2147483647 - (int) i : (int) (i * 7919 % 100003) - 50000);
    EclOutput* out = make_writer(); out->write(std::string("INTEARR"), data); out->flushStream();
    Ref r; r.header("INTEARR ", NELEM, "INTE"); ref_columns(r, NELEM, 6, 1000, [&](long i) { r.rjust(std::to_string(data[i]), 12); });
    CHECK(r.ok); CHECK(r.pos == verif_memfile_size(1));
    CHECK((uint64_t) verif_memfile_size(1) == 31 + sizeOnDiskFormatted(NELEM, INTE, 4));
    std::fstream* f = verif_memfile_new(); verif_stream_bind(f, 1, 2); verif_memfile_rewind(1);
    std::string name; std::int64_t num; eclArrType t; int es;
    readFormattedHeader(*f, name, num, t, es);
    CHECK(name == "INTEARR " && num == NELEM && t == INTE && es == 4);
    std::vector<int> back = readFormattedInteArray(file_text(), num, 31);
    CHECK(back.size() == data.size()); for (size_t i = 0; i < data.size(); ++i) CHECK(back[i] == data[i]);
}
extern "C" void h_fmt_logi(void) {
    std::vector<bool> data(NELEM); for (size_t i = 0; i < data.size(); ++i) data[i] = (i == 0 || i + 1 == data.size() || i == 1000) ? nondet_bool() : (i % 3 == 0);
    EclOutput* out = make_writer(); out->write(std::string("LOGIARR"), data); out->flushStream();
    Ref r; r.header("LOGIARR ", NELEM, "LOGI"); ref_columns(r, NELEM, 25, 1000, [&](long i) { r.str(data[i] ? "  T" : "  F"); });
    CHECK(r.ok); CHECK(r.pos == verif_memfile_size(1));
    CHECK((uint64_t) verif_memfile_size(1) == 31 + sizeOnDiskFormatted(NELEM, LOGI, 4));
    std::vector<bool> back = readFormattedLogiArray(file_text(), NELEM, 31);
    CHECK(back.size() == data.size()); for (size_t i = 0; i < data.size(); ++i) CHECK(back[i] == data[i]);
}
extern "C" void h_fmt_char(void) {
    std::vector<std::string> data(NELEM);
    for (size_t i = 0; i < data.size(); ++i) {
        size_t len = (i * 5 + 3) % (ELSZ + 1); data[i].assign(len, 'x');
        for (size_t k = 0; k < len; ++k) { if (i < 2 || i + 2 > data.size()) { char c = nondet_char(); ASSUME(c > 32 && c < 127 && c != '\''); data[i][k] = c; } else data[i][k] = char('a' + (i + k) % 26); }
    }
    EclOutput* out = make_writer();
#if ELSZ > 8
    char ty[5] = { 'C', '0', char('0' + ELSZ / 10), char('0' + ELSZ % 10), 0 };
    out->write(std::string("CHARARR"), data, ELSZ);
#else
    const char* ty = "CHAR";
    out->write(std::string("CHARARR"), data);
#endif
    out->flushStream();
    const int cols = ELSZ > 8 ? (80 / (ELSZ + 3) ? 80 / (ELSZ + 3) : 1) : 7;        // strings wider than a line: one per line
    Ref r; r.header("CHARARR ", NELEM, ty);
    ref_columns(r, NELEM, cols, 105, [&](long i) { r.str(" '"); r.str(data[i]); for (int k = (int) data[i].size(); k < ELSZ; ++k) r.ch(' '); r.ch('\''); });
    CHECK(r.ok); CHECK(r.pos == verif_memfile_size(1));
    CHECK((uint64_t) verif_memfile_size(1) == 31 + sizeOnDiskFormatted(NELEM, ELSZ > 8 ? C0NN : CHAR, ELSZ));
    std::vector<std::string> back = readFormattedCharArray(file_text(), NELEM, 31, ELSZ);
    CHECK(back.size() == data.size()); for (size_t i = 0; i < data.size(); ++i) CHECK(back[i] == data[i]);
}
// formatted DOUB / REAL arrays: the mantissa/exponent surgery of make_doub_string_ecl / make_real_string_ecl around snprintf, on concrete
// values that reach every branch (both signs, two- and three-digit exponents, exponent sign, zero); read back to the printed precision
extern "C" void h_fmt_doub(void) {
    static const double vals[] = { 0.0, 1.0, -1.0, 0.5, -3.25, 123456.789, -7.25e-200, 7.25e-200, -1.5e150, 2.5e150, 9.999999999999e99, -9.999999999999e99, 1e-99, -1e-99, 1e100, -1e-100, 4.25e-5, -6.5e7,
                                  2.2250738585072014e-308 /* DBL_MIN: prints as a number just below it */, 4.9406564584124654e-324, 1.7976931348623157e308 };
    const long n = sizeof(vals) / sizeof(vals[0]);
    std::vector<double> data(vals, vals + n);
    EclOutput* out = make_writer(); out->write(std::string("DOUBARR"), data); out->flushStream();
    CHECK((uint64_t) verif_memfile_size(1) == 31 + sizeOnDiskFormatted(n, DOUB, 8));
    std::vector<double> back = readFormattedDoubArray(file_text(), n, 31);
    CHECK(back.size() == data.size());
    for (long i = 0; i < n; ++i) { const double d = back[i] - data[i], tol = 1e-13 * (data[i] < 0 ? -data[i] : data[i]); CHECK(d <= tol && -d <= tol); }
    std::vector<float> fdata; for (double v : { 0.0, 1.0, -1.0, 0.5, -3.25, 123456.79, -7.25e-20, 7.25e20, -1.5e-30, 2.5e30, 4.25e-5 }) fdata.push_back((float) v);
    verif_memfile_truncate(1, 0);
    EclOutput* out2 = make_writer(); out2->write(std::string("REALARR"), fdata); out2->flushStream();
    CHECK((uint64_t) verif_memfile_size(1) == 31 + sizeOnDiskFormatted((long) fdata.size(), REAL, 4));
    std::vector<float> fback = readFormattedRealArray(file_text(), (long) fdata.size(), 31);
    CHECK(fback.size() == fdata.size());
    for (size_t i = 0; i < fdata.size(); ++i) { const double d = (double) fback[i] - (double) fdata[i], tol = 2e-7 * (fdata[i] < 0 ? -(double) fdata[i] : (double) fdata[i]); CHECK(d <= tol && -d <= tol); }
}
