// C07 (unformatted files): real writer (EclOutput::write -> writeBinaryHeader / writeBinaryArray / writeBinaryCharArray) and
// real readers (readBinaryHeader, readBinary*Array) against an independent reference codec written from the published layout.
#include <cstring>
#include <cstdint>
#include <string>
#include <vector>
#include <array>
#include <fstream>
#include <functional>
#include <verif.h>
#include <memfile.h>
#define private public
#define protected public
#include <opm/io/eclipse/EclOutput.hpp>
#undef private
#undef protected
#include <opm/io/eclipse/EclUtil.hpp>
#include <opm/io/eclipse/EclIOdata.hpp>
using namespace Opm::EclIO;

#ifndef NELEM
#define NELEM 3
#endif
#ifndef IX
#define IX 0
#endif

alignas(16) static unsigned char out_storage[sizeof(EclOutput)];
static EclOutput* make_writer(bool formatted) {
#ifdef VERIF_NATIVE
    EclOutput* o = new EclOutput(verif_memfile_path(1), formatted, std::ios::out); if (IX) o->set_ix(); return o;
#endif
    EclOutput* out = reinterpret_cast<EclOutput*>(out_storage);
    out->isFormatted = formatted; out->ix_standard = IX;
    verif_stream_bind(&out->ofileH, 1, 0);
    return out;
}
// ---------------- reference encoder (published layout; deliberately shares no constant with EclIOdata.hpp)
struct Ref { long pos = 0; bool ok = true;
    void byte(unsigned char b) { if (pos >= verif_memfile_size(1)) { ok = false; ++pos; return; } if (verif_memfile_byte(1, pos) != b) ok = false; ++pos; }
    void be32(uint32_t v) { byte(v >> 24); byte(v >> 16); byte(v >> 8); byte(v); }
    void be64(uint64_t v) { be32(v >> 32); be32((uint32_t) v); }
    void str(const char* s, int n) { for (int i = 0; i < n; ++i) byte(s[i]); }
    void header(const char* name8, uint32_t count, const char* type4) { be32(16); str(name8, 8); be32(count); str(type4, 4); be32(16); }
};
template <class F> static void ref_blocks(Ref& r, long n, int elsz, int per, F elem) {
    long done = 0;
    while (done < n) { long k = n - done < per ? n - done : per; r.be32(k * elsz); for (long i = 0; i < k; ++i) elem(done + i); r.be32(k * elsz); done += k; }
}

extern "C" void h_inte(void) {
    std::vector<int> data(NELEM); for (auto& v : data) v = nondet_int();
    EclOutput* out = make_writer(false);
    out->write(std::string("INTEARR"), data); out->flushStream();
    Ref r; r.header("INTEARR ", NELEM, "INTE"); ref_blocks(r, NELEM, 4, 1000, [&](long i) { r.be32((uint32_t) data[i]); });
    CHECK(r.ok); CHECK(r.pos == verif_memfile_size(1));
    CHECK((uint64_t) verif_memfile_size(1) == 24 + sizeOnDiskBinary(NELEM, INTE, 4));
    // real reader on the bytes
    std::fstream* f = verif_memfile_new(); verif_stream_bind(f, 1, 2); verif_memfile_rewind(1);
    std::string name; std::int64_t num; eclArrType t; int es;
    readBinaryHeader(*f, name, num, t, es);
    CHECK(name == "INTEARR " && num == NELEM && t == INTE && es == 4);
    std::vector<int> back = readBinaryInteArray(*f, num);
    CHECK(back.size() == data.size()); for (size_t i = 0; i < data.size(); ++i) CHECK(back[i] == data[i]);
    #ifndef VERIF_NATIVE
    CHECK(verif_memfile_gpos(1) == verif_memfile_size(1));
#endif
}
extern "C" void h_real(void) {
    std::vector<float> data(NELEM); std::vector<uint32_t> bits(NELEM);
    for (size_t i = 0; i < data.size(); ++i) { bits[i] = nondet_uint(); std::memcpy(&data[i], &bits[i], 4); }
    EclOutput* out = make_writer(false);
    out->write(std::string("REALARR"), data); out->flushStream();
    Ref r; r.header("REALARR ", NELEM, "REAL"); ref_blocks(r, NELEM, 4, 1000, [&](long i) { r.be32(bits[i]); });
    CHECK(r.ok); CHECK(r.pos == verif_memfile_size(1));
    CHECK((uint64_t) verif_memfile_size(1) == 24 + sizeOnDiskBinary(NELEM, REAL, 4));
    std::fstream* f = verif_memfile_new(); verif_stream_bind(f, 1, 2); verif_memfile_rewind(1);
    std::string name; std::int64_t num; eclArrType t; int es;
    readBinaryHeader(*f, name, num, t, es);
    CHECK(name == "REALARR " && num == NELEM && t == REAL && es == 4);
    std::vector<float> back = readBinaryRealArray(*f, num);
    CHECK(back.size() == data.size()); for (size_t i = 0; i < data.size(); ++i) { uint32_t b; std::memcpy(&b, &back[i], 4); CHECK(b == bits[i]); }
}
extern "C" void h_doub(void) {
    std::vector<double> data(NELEM); std::vector<uint64_t> bits(NELEM);
    for (size_t i = 0; i < data.size(); ++i) { bits[i] = nondet_ulong(); std::memcpy(&data[i], &bits[i], 8); }
    EclOutput* out = make_writer(false);
    out->write(std::string("DOUBARR"), data); out->flushStream();
    Ref r; r.header("DOUBARR ", NELEM, "DOUB"); ref_blocks(r, NELEM, 8, 1000, [&](long i) { r.be64(bits[i]); });
    CHECK(r.ok); CHECK(r.pos == verif_memfile_size(1));
    CHECK((uint64_t) verif_memfile_size(1) == 24 + sizeOnDiskBinary(NELEM, DOUB, 8));
    std::fstream* f = verif_memfile_new(); verif_stream_bind(f, 1, 2); verif_memfile_rewind(1);
    std::string name; std::int64_t num; eclArrType t; int es;
    readBinaryHeader(*f, name, num, t, es);
    CHECK(name == "DOUBARR " && num == NELEM && t == DOUB && es == 8);
    std::vector<double> back = readBinaryDoubArray(*f, num);
    CHECK(back.size() == data.size()); for (size_t i = 0; i < data.size(); ++i) { uint64_t b; std::memcpy(&b, &back[i], 8); CHECK(b == bits[i]); }
}
extern "C" void h_logi(void) {
    // symbolic at the block boundaries and ends, a fixed pattern elsewhere (every symbolic bool forks the reader's validity test)
    std::vector<bool> data(NELEM); for (size_t i = 0; i < data.size(); ++i) data[i] = (i == 0 || i + 1 == data.size() || i == 1000) ? nondet_bool() : (i % 3 == 0);
    EclOutput* out = make_writer(false);
    out->write(std::string("LOGIARR"), data); out->flushStream();
    Ref r; r.header("LOGIARR ", NELEM, "LOGI"); ref_blocks(r, NELEM, 4, 1000, [&](long i) { r.be32(data[i] ? (IX ? 0x00000001u /* 0x01000000 little-endian word written as is */ : 0xffffffffu) : 0u); });
    CHECK(r.ok); CHECK(r.pos == verif_memfile_size(1));
    std::fstream* f = verif_memfile_new(); verif_stream_bind(f, 1, 2); verif_memfile_rewind(1);
    std::string name; std::int64_t num; eclArrType t; int es;
    readBinaryHeader(*f, name, num, t, es);
    CHECK(name == "LOGIARR " && num == NELEM && t == LOGI && es == 4);
    std::vector<bool> back = readBinaryLogiArray(*f, num);
    CHECK(back.size() == data.size()); for (size_t i = 0; i < data.size(); ++i) CHECK(back[i] == data[i]);
}
// strings: element i has length (i*5+LEN0) % (ELSZ+1), symbolic printable characters without trailing blank
#ifndef ELSZ
#define ELSZ 8
#endif
#ifndef LEN0
#define LEN0 3
#endif
static std::vector<std::string> mkstrings() {
    std::vector<std::string> data(NELEM);
    for (size_t i = 0; i < data.size(); ++i) {
        size_t len = (i * 5 + LEN0) % (ELSZ + 1);
        data[i].assign(len, 'x');
        for (size_t k = 0; k < len; ++k) { char c = nondet_char(); ASSUME(c > 32 && c < 127); data[i][k] = c; }
    }
    return data;
}
extern "C" void h_char(void) {
    std::vector<std::string> data = mkstrings();
    EclOutput* out = make_writer(false);
#if ELSZ > 8
    char ty[5] = { 'C', char('0' + ELSZ / 100), char('0' + (ELSZ / 10) % 10), char('0' + ELSZ % 10), 0 };      // 'C' + three digits (C012 ... C128)
    out->write(std::string("CHARARR"), data, ELSZ); out->flushStream();
#else
    const char* ty = "CHAR";
    out->write(std::string("CHARARR"), data); out->flushStream();
#endif
    Ref r; r.header("CHARARR ", NELEM, ty);
    ref_blocks(r, NELEM, ELSZ, 105, [&](long i) { for (int k = 0; k < ELSZ; ++k) r.byte(k < (int) data[i].size() ? data[i][k] : ' '); });
    CHECK(r.ok); CHECK(r.pos == verif_memfile_size(1));
    CHECK((uint64_t) verif_memfile_size(1) == 24 + sizeOnDiskBinary(NELEM, ELSZ > 8 ? C0NN : CHAR, ELSZ));
    std::fstream* f = verif_memfile_new(); verif_stream_bind(f, 1, 2); verif_memfile_rewind(1);
    std::string name; std::int64_t num; eclArrType t; int es;
    readBinaryHeader(*f, name, num, t, es);
    CHECK(name == "CHARARR " && num == NELEM && t == (ELSZ > 8 ? C0NN : CHAR) && es == ELSZ);
    std::vector<std::string> back = ELSZ > 8 ? readBinaryC0nnArray(*f, num, es) : readBinaryCharArray(*f, num);
    CHECK(back.size() == data.size()); for (size_t i = 0; i < data.size(); ++i) CHECK(back[i] == data[i]);
}
extern "C" void h_mess(void) {
    EclOutput* out = make_writer(false);
    out->message(std::string("HELLO")); out->flushStream();
    Ref r; r.header("HELLO   ", 0, "MESS"); CHECK(r.ok); CHECK(r.pos == verif_memfile_size(1));
    std::fstream* f = verif_memfile_new(); verif_stream_bind(f, 1, 2); verif_memfile_rewind(1);
    std::string name; std::int64_t num; eclArrType t; int es;
    readBinaryHeader(*f, name, num, t, es);
    CHECK(name == "HELLO   " && num == 0 && t == MESS);
}
