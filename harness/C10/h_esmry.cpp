// C10: ESmry::get -> loadData(vectList): the per-element seek arithmetic (unformatted and formatted) on an in-memory summary data file whose
// PARAMS records are produced by the real writer (unformatted) or by a reference formatter of the published text layout (formatted).
// The ESmry object is laid out by the harness (one spec file, one data file, two ministeps, one key at PARAMS position p).
#include <fstream>
#include <string>
#include <vector>
#include <map>
#include <tuple>
#include <new>
#include <sstream>
#include <filesystem>
#include <chrono>
#include <unordered_map>
#include <optional>
#include <ostream>
#include <array>
#include <set>
#include <memory>
#include <functional>
#include <iostream>
#include <iomanip>
#include <algorithm>
#include <regex>
#include <cstring>
#include <verif.h>
#include <memfile.h>
#define private public
#define protected public
#include <opm/io/eclipse/EclOutput.hpp>
#include <opm/io/eclipse/ESmry.hpp>
#undef private
#undef protected
#include <opm/io/eclipse/EclUtil.hpp>
using namespace Opm::EclIO;
#ifndef NVECT
#define NVECT 2500
#endif
alignas(16) static unsigned char out_storage[sizeof(EclOutput)];
alignas(16) static unsigned char smry_storage[sizeof(ESmry)];
static ESmry* mksmry(bool formatted, const char* datafile, const std::vector<std::uint64_t>& stepPos, int p) {
    ESmry* e = reinterpret_cast<ESmry*>(smry_storage);
    new (&e->keyword_index) std::map<std::string, int>();
    e->formattedFiles.push_back(formatted); e->dataFileList.push_back(datafile);
    e->keyword.push_back("WOPR:W1"); e->keyword_index["WOPR:W1"] = 0;
    e->vectorData.resize(1); e->vectorLoaded.push_back(false);
    for (auto sp : stepPos) e->timeStepList.emplace_back(0, 0, sp);
    e->nTstep = stepPos.size(); e->nVect = 1;
    e->arrayPos.emplace_back(); e->arrayPos[0][0] = p;
    return e;
}
static int pick_pos() {      // positions around the record-block boundaries and the ends
    static const int cand[] = { 0, 1, 3, 4, 999, 1000, 1001, 1999, 2000, 2001, 3999, 4000, 4001, NVECT - 2, NVECT - 1 };
    unsigned long k = verif_concretize(nondet_ulong(), 14); return cand[k] < 0 ? 0 : cand[k] < NVECT ? cand[k] : NVECT - 1;
}
extern "C" void h_binary(void) {
    const int p = pick_pos();
    unsigned int bits[2] = { nondet_uint(), nondet_uint() };
#ifdef VERIF_NATIVE
    verif_memfile_name(1, "CASE.UNSMRY"); EclOutput* out = new EclOutput("CASE.UNSMRY", false, std::ios::out);
#else
    EclOutput* out = reinterpret_cast<EclOutput*>(out_storage); out->isFormatted = false; out->ix_standard = false;
    verif_stream_bind(&out->ofileH, 1, 0); verif_memfile_name(1, "CASE.UNSMRY");
#endif
    std::vector<std::uint64_t> stepPos;
    for (int step = 0; step < 2; ++step) {
        std::vector<float> params(NVECT); for (int i = 0; i < NVECT; ++i) params[i] = (float) (i + 7 * step);
        std::memcpy(&params[p], &bits[step], 4);                                   // the probed element: any bit pattern
        out->write(std::string("MINISTEP"), std::vector<int>{ step });
        out->flushStream();
        stepPos.push_back((std::uint64_t) verif_memfile_size(1) + 24);             // data of PARAMS starts after its 24-byte header
        out->write(std::string("PARAMS"), params);
    }
    out->flushStream();
    ESmry* e = mksmry(false, "CASE.UNSMRY", stepPos, p);
    const std::vector<float>& v = e->get(std::string("WOPR:W1"));
    CHECK(v.size() == 2);
    for (int step = 0; step < 2; ++step) { unsigned int got; std::memcpy(&got, &v[step], 4); CHECK(got == bits[step]); }
}
// formatted: 4 values per line, 17 characters each, hard line break after every 1000 values
static void put(long& pos, const char* s) { for (; *s; ++s) verif_memfile_setbyte(1, pos++, (unsigned char) *s); }
extern "C" void h_formatted(void) {
    const int p = pick_pos();
    verif_memfile_name(1, "CASE.FUNSMRY");
    long pos = 0; std::vector<std::uint64_t> stepPos;
    for (int step = 0; step < 2; ++step) {
        put(pos, " 'MINISTEP'           1 'INTE'\n"); put(pos, step == 0 ? "           0\n" : "           1\n");
        put(pos, " 'PARAMS  '        "); { char b[8]; int n = NVECT; b[4] = 0; for (int k = 3; k >= 0; --k) { b[k] = char('0' + n % 10); n /= 10; } put(pos, b); } put(pos, " 'REAL'\n");
        stepPos.push_back(pos);
        for (int i = 0; i < NVECT; ++i) {
            char f[18] = "   0.00000000E+00";                                          // value i*? encoded in the mantissa digits: 0.dddddd00E+06 = i (+ 1e5 * step)
            int val = i + 100000 * step; for (int k = 5; k >= 0; --k) { f[5 + k] = char('0' + val % 10); val /= 10; } f[15] = '0'; f[16] = '6';
            put(pos, f);
            if ((i + 1) % 4 == 0 || (i + 1) % 1000 == 0 || i + 1 == NVECT) put(pos, "\n");
        }
    }
    ESmry* e = mksmry(true, "CASE.FUNSMRY", stepPos, p);
    const std::vector<float>& v = e->get(std::string("WOPR:W1"));
    CHECK(v.size() == 2);
    for (int step = 0; step < 2; ++step) CHECK(v[step] == (float) (p + 100000 * step));
}
