EXPLANATION = ('C10: ESmry::get -> loadData(vectList) is executed on an in-memory summary data file: the element offsets it seeks to (unformatted: record heads/tails every 1000 values; formatted: 17-character columns, 4 per line, '
  'hard break every 1000) must hit exactly the value of vector p in each ministep - PARAMS written by the real unformatted writer, respectively by a reference formatter of the text layout; plus the NUMS packing (C07 harness).')
BOUNDS = 'vector counts 1, 1000, 1001, 2500 and 4001 (thorough), positions p at the block boundaries and ends (one path each), two ministeps, arbitrary bit pattern of the probed value (unformatted)'
OUTSIDE = 'SMSPEC parsing (keywords, units, start date), restart-chain assembly, the ESMRY header (START/KEYCHECK/UNITS) and file-system handling of ExtESmry (its per-vector loader is covered), make_esmry_file, the formatted writer for REAL (snprintf)'
ASSUMPTIONS = ['the ESmry object is laid out by the harness; std::fstream family and std::chrono::system_clock::now are models', 'strtof on concrete text computed by the executor']
TUS = ['opm/io/eclipse/EclOutput.cpp', 'opm/io/eclipse/EclUtil.cpp', 'opm/io/eclipse/ESmry.cpp']
def jobs(tier):
    out = []
    for n in ((1001, 2500, 4001) if tier == 'quick' else (1, 2, 1000, 1001, 2500, 4001, 4500)):
        out.append(dict(name='binary_n%d' % n, src='h_esmry.cpp', defs={'NVECT': n}, entry='h_binary', tus=TUS, fp='ieee', loopmax=100000, maxsteps=400000000, bounds='%d vectors, unformatted' % n))
        out.append(dict(name='formatted_n%d' % n, src='h_esmry.cpp', defs={'NVECT': n}, entry='h_formatted', tus=TUS, fp='ieee', loopmax=1000000, maxsteps=800000000, timeout=1500, bounds='%d vectors, formatted' % n))
    for nt in ((1001,) if tier == 'quick' else (1, 1000, 1001, 2500)):
        out.append(dict(name='extesmry_nt%d' % nt, src='h_extesmry.cpp', defs={'NTSTEP': nt}, entry='h_extesmry', tus=TUS + ['opm/io/eclipse/ExtESmry.cpp'], fp='ieee', loopmax=1000000, maxsteps=800000000, timeout=1500,
                        bounds='ESMRY layout, 3 vectors, %d ministeps, probed ministep at the record-block boundaries and ends' % nt))
    return out
