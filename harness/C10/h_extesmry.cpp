// C10 (ESMRY reader): ExtESmry::get -> loadData -> load_esmry on an in-memory ESMRY-layout file: the reader locates vector k behind the
// RSTEP and TSTEP arrays and k earlier vectors with sizeOnDiskBinary; with more than 1000 ministeps every one of these arrays spans several
// records.  The value read for a probed (vector, ministep) must be the bit pattern that was written.
#include <fstream>
#include <string>
#include <vector>
#include <map>
#include <tuple>
#include <cstring>
#include <filesystem>
#include <verif.h>
#include <memfile.h>
#define private public
#define protected public
#include <opm/io/eclipse/EclOutput.hpp>
#include <opm/io/eclipse/ExtESmry.hpp>
#undef private
#undef protected
using namespace Opm::EclIO;
#ifndef NTSTEP
#define NTSTEP 1001
#endif
static const int NVEC = 3;
alignas(16) static unsigned char out_storage[sizeof(EclOutput)];
alignas(16) static unsigned char smry_storage[sizeof(ExtESmry)];
extern "C" void h_extesmry(void) {
    static const int cand[] = { 0, 1, 999, 1000, 1001, NTSTEP - 2, NTSTEP - 1 };
    int step = cand[verif_concretize(nondet_ulong(), 6)]; if (step < 0) step = 0; if (step >= NTSTEP) step = NTSTEP - 1;
    const int vec = (int) verif_concretize(nondet_ulong(), NVEC - 1);
    unsigned int bits = nondet_uint();
#ifdef VERIF_NATIVE
    verif_memfile_name(1, "CASE.ESMRY"); EclOutput* out = new EclOutput("CASE.ESMRY", false, std::ios::out);
#else
    EclOutput* out = reinterpret_cast<EclOutput*>(out_storage); out->isFormatted = false; out->ix_standard = false;
    verif_stream_bind(&out->ofileH, 1, 0); verif_memfile_name(1, "CASE.ESMRY");
#endif
    out->write(std::string("START"), std::vector<int>{ 1, 1, 2020, 0, 0, 0, 0 });
    out->flushStream();
    const std::uint64_t rstep_offset = (std::uint64_t) verif_memfile_size(1);
    { std::vector<int> rs(NTSTEP, 0), ts(NTSTEP); for (int i = 0; i < NTSTEP; ++i) ts[i] = i; out->write(std::string("RSTEP"), rs); out->write(std::string("TSTEP"), ts); }
    for (int k = 0; k < NVEC; ++k) {
        std::vector<float> v(NTSTEP); for (int i = 0; i < NTSTEP; ++i) v[i] = (float) (1000 * k + i);
        if (k == vec) std::memcpy(&v[step], &bits, 4);                              // the probed value: any bit pattern
        out->write("V" + std::to_string(k), v);
    }
    out->flushStream();
    ExtESmry* e = reinterpret_cast<ExtESmry*>(smry_storage);
    new (&e->m_esmry_files) std::vector<std::filesystem::path>(); e->m_esmry_files.emplace_back(std::string("CASE.ESMRY"));
    new (&e->m_keyword_index) std::vector<std::map<std::string, int>>(); e->m_keyword_index.emplace_back();
    new (&e->m_keyword) std::vector<std::string>();
    for (int k = 0; k < NVEC; ++k) { const std::string key = "KEY" + std::to_string(k); e->m_keyword.push_back(key); e->m_keyword_index[0][key] = k; }
    new (&e->m_tstep_range) std::vector<std::tuple<int, int>>(); e->m_tstep_range.emplace_back(0, NTSTEP - 1);
    new (&e->m_vectorData) std::vector<std::vector<float>>(NVEC); new (&e->m_vectorLoaded) std::vector<bool>(NVEC, false);
    new (&e->m_rstep_offset) std::vector<std::uint64_t>(); e->m_rstep_offset.push_back(rstep_offset);
    e->m_nVect = NVEC; e->m_nTstep = NTSTEP; e->m_io_loading = 0.0; e->m_io_opening = 0.0;
    const std::vector<float>& got = e->get("KEY" + std::to_string(vec));
    CHECK(got.size() == (size_t) NTSTEP);
    unsigned int b; std::memcpy(&b, &got[step], 4); CHECK(b == bits);
    if (step > 0) CHECK(got[step - 1] == (float) (1000 * vec + step - 1));
    if (step + 1 < NTSTEP) CHECK(got[step + 1] == (float) (1000 * vec + step + 1));
}
