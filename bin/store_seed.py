#!/usr/bin/env python3
"""usage: store_seed.py <outdir> <property> <caught:yes|no> <by-which-jobs> <needs...>"""
import sys, os, json, shutil
out, prop, caught, by = sys.argv[1:5]; needs = ' '.join(sys.argv[5:])
sid = os.path.basename(out.rstrip('/'))
dst = os.path.join(os.path.dirname(os.path.dirname(os.path.abspath(__file__))), 'seeded', sid)
os.makedirs(dst, exist_ok=True)
for f in ('patch.diff', 'demo.cpp', 'README.txt', 'confirm.txt'):
    if os.path.exists(os.path.join(out, f)): shutil.copy(os.path.join(out, f), dst)
conf = open(os.path.join(out, 'confirm.txt')).read() if os.path.exists(os.path.join(out, 'confirm.txt')) else ''
meta = dict(id=sid, breaks_property=prop, needs_to_manifest=needs, origin='independent sub-agent given only the property text and a scratch worktree',
            confirmed=dict(how='bin/confirm_seed.sh in a scratch worktree with a lean build: patch applies, incremental build, 164 baseline tests, demo on clean and patched tree', result=conf.strip().split('\n')),
            detection=dict(command='git -C /repo apply seeded/%s/patch.diff; bin/check %s --tier quick; git -C /repo checkout -- .' % (sid, prop), caught=(caught == 'yes'), by=by))
json.dump(meta, open(os.path.join(dst, 'meta.json'), 'w'), indent=1)
print('stored', dst)
