#!/usr/bin/env python3
"""Rewrites the table between the SEED-TABLE markers of DESIGN.md from seeded/*/meta.json."""
import json, glob, os, re
V = os.path.dirname(os.path.dirname(os.path.abspath(__file__)))
rows = []
for f in sorted(glob.glob(os.path.join(V, 'seeded', '*', 'meta.json'))):
    d = json.load(open(f))
    esc = lambda s: s.replace('|', '/').replace('\n', ' ')
    rows.append('| %s | %s | %s | %s |' % (d['id'], esc(d['needs_to_manifest']), 'n/a (superseded)' if d.get('status') == 'superseded' else 'caught' if d['detection']['caught'] else '**missed**', esc(d['detection']['by'])))
n = sum('| n/a (superseded) |' not in r for r in rows); c = sum('| caught |' in r for r in rows)
tab = '| seed | needs, to manifest | verdict of `bin/check <ID> --tier quick` with the patch applied to /repo | by / why |\n|---|---|---|---|\n' + '\n'.join(rows) + '\n\n%d of %d seeded changes are caught.\n' % (c, n)
p = os.path.join(V, 'DESIGN.md'); s = open(p).read()
s = re.sub(r'(<!-- SEED-TABLE -->\n).*?(<!-- /SEED-TABLE -->)', lambda m: m.group(1) + tab + m.group(2), s, flags=re.S)
open(p, 'w').write(s)
print(c, 'of', n)
