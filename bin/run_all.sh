#!/bin/bash
# runs every claimed check (quick tier by default) and prints one summary line per property
cd "$(dirname "$0")/.."
TIER=${1:-quick}
for id in $(python3 -c "import json; print(' '.join(c['property_id'] for c in json.load(open('MANIFEST.json'))['checks']))"); do
  s=$(date +%s); out=$(bin/check $id --tier $TIER 2>&1); rc=$?; e=$(( $(date +%s) - s ))
  echo "$id rc=$rc ${e}s :: $(echo "$out" | tail -1)"
  echo "$out" | grep -E "^(VIOLATION|INCONCLUSIVE|ENCODER-MISMATCH|KNOWN-FINDING)" | cut -c1-220
done
