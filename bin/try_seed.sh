#!/bin/bash
# usage: try_seed.sh <dir with patch.diff> <property> [extra bin/check args]: apply the seeded change to /repo, run the check, undo it
D=$1; P=$2; shift 2
cd "$(dirname "$0")/.."
git -C /repo diff --quiet || { echo "/repo has local changes"; exit 2; }
git -C /repo apply $D/patch.diff || { echo "patch does not apply"; exit 2; }
bin/check $P "$@" > /tmp/w/try_$(basename $D).log 2>&1; rc=$?
git -C /repo checkout -- .
echo "$(basename $D): exit=$rc"; grep -E "^VIOLATION|^ENCODER|^INCONCLUSIVE|^C[0-9]+ " /tmp/w/try_$(basename $D).log | cut -c1-220
