#!/usr/bin/env python3
"""Writes /verif/MANIFEST.json from the table below (single source of truth for the interface file)."""
import json, os
V = os.path.dirname(os.path.dirname(os.path.abspath(__file__)))
TECH = 'bounded symbolic execution of clang LLVM-IR of the real functions; every path/assertion decided by z3 (SMT), counterexamples replayed natively'
CLAIMED = {
 'C16': dict(text='Every operator and math function of DenseAd::Evaluation in all size variants (1..12 specialisations, generic 13..16, dynamic) is symbolically executed with symbolic value/derivative slots; z3 proves each result slot equal to the chain-rule expression for all real operands (libm uninterpreted). Loop-free kernels, so the bound is only the operator-at-a-time granularity.',
             note='doubles as reals (rounding outside); libm uninterpreted; points of non-differentiability excluded by assumption; expression trees follow by compositionality, not re-derived', design='4/C16'),
}
CLAIMED.update({
 'C07': dict(text='The real array writer (EclOutput::write/message -> binary header/array writers) and readers (readBinaryHeader, readBinary*Array) run symbolically on an in-memory file with symbolic element bit patterns; bytes are compared with an independent reference codec of the published layout, reader output with the originals (bit-exact), and sizeOnDiskBinary/Formatted with the reference size for every n < 2^40 / 2^31. Lengths are concrete per harness at the block boundaries; values are fully symbolic.',
             note='std::ofstream/fstream replaced by the memfile stream model; EclOutput object laid out by the harness; formatted element conversion (snprintf/stod) outside; lengths other than the listed boundary values covered only via the closed-form size arithmetic', design='4/C07'),
 'C13': dict(text='GridDims index laws for symbolic dimensions/indices, EclipseGrid active<->global maps for every ACTNUM vector of a 2x2x2 grid via the public API, geometry queries (volume, centre, depth, dims, thickness) of regular grids for all positive real spacings, and calculateCellVol proven equal (polynomial identity over 24 real coordinates) to an exact Simpson integration of the trilinear Jacobian.',
             note='doubles as reals; sqrt uninterpreted with its defining axioms; OpenMP thread independence and EGRID file round trip not modelled; grid sizes bounded as listed', design='4/C13'),
})
CLAIMED.update({
 'C02': dict(text='For each of the four deck unit systems the real UnitSystem (constructed through its public constructor) is queried with a SYMBOLIC measure index: z3 proves that every row factor/offset equals an independent table of physical unit definitions (1e-12), that from_si(to_si(x)) = x to 1e-14 over exact rationals, that vector/scalar/Dimension views agree, that named dimensions equal their definitions and that composite strings multiply/divide (symbolic factors); DeckItem lazy raw<->SI conversion is decided for symbolic values, default flags and dimension factors.',
             note='doubles as exact rationals; std::map executed from headers with the rb-tree rebalance modelled as plain BST insert; keyword-JSON dimension strings and whole-deck re-expression outside', design='4/C02'),
})
CLAIMED.update({
 'C06': dict(text='The real WellConnections::loadCOMPDAT is run symbolically through its public signature (hand-built DeckRecord, real ScheduleGrid/CompletedCells cell) with symbolic cell geometry, permeabilities, NTG, skin, diameter, CF, Kh, r0 and symbolic given/defaulted flags; z3 proves on every path that explicit values are stored unchanged, defaulted Kh/r0 equal the independently written Peaceman expressions (direction permutation, NTG on the vertical extent) and CF (ln(r0/rw)+S) = 2 pi Kh.',
             note='doubles as reals, libm uninterpreted with defining axioms; rw < r0 assumed; over-determined input (CF, Kh and r0 all entered) only checked for pass-through; relation to 1e-8 where r0 is back-computed (8-digit pi in inverse_peaceman); COMPDAT parsing, WPIMULT/WELOPEN handlers and multi-record histories outside', design='4/C06'),
})
CLAIMED.update({
 'C14': dict(text='Tabulated1DFunction (sorting, segment search incl. bisection, eval, evalDerivative, extrapolation) and DeadOilPvt/DryGasPvt built from hand-set tables are executed with symbolic nodes (3-5) and evaluation point; z3 proves node honouring, bracketing between nodes (also for viscosity = (1/B)/(1/(B mu))), derivative = chord slope for double and Evaluation arguments, and the extrapolation rules.',
             note='doubles as reals; initFromState (table extension, unit conversion), live-oil/wet-gas 2D tables, saturation-pressure Newton iteration and PVTW/PVCDO closed forms outside', design='4/C14'),
})
CLAIMED.update({
 'C15': dict(text='PiecewiseLinearTwoPhaseMaterial and EclEpsTwoPhaseLaw are executed with symbolic monotone tables, symbolic scaled/unscaled end-point triples, relperm scaling values and saturation; z3 proves node honouring, [0,max] bounds and monotonicity, that scaled end-points map onto table end-points (two- and three-point), that scaling with the table end-points is the identity, that the inverse maps undo the forward maps, and the vertical KRW/KRWR scaling laws.',
             note='doubles as reals; material-law manager initialisation from an EclipseState (family I/II equivalence, satfunc property initialisers), three-phase combination and hysteresis scanning curves outside this check', design='4/C15'),
})
CLAIMED.update({
 'C18': dict(text='Action::Result/MatchingEntities set algebra is executed through the public API for every combination of truth values, presence of match sets and well-name choices (3+2 names over a 3-letter alphabet): AND = conjunction + intersection where set-less operands contribute none, OR = disjunction + union, ranges sorted and duplicate-free; Value::eval_cmp for every comparator with symbolic operands (scalar and per well); ActionX::ready/State::add_run as one inductive step from an arbitrary prior (count, last-run) state, deciding that an action is ready exactly when max_run, start_time and min_wait allow it - hence no history can exceed the limits.',
             note='condition tokenising/parsing and AST evaluation against a SummaryState/Context (wildcards, dates) and Actions::pending are outside; difftime stubbed as (double)a-(double)b; times within +-2^40 s', design='4/C18'),
})
CLAIMED.update({
 'C01': dict(text='The lexical layer of the parser (str::strip_comments/find_terminator/trim/fast_clean/del_after_first_slash, splitSingleRecordString) is executed on every 7-bit text up to the bound: layout rewrites (padding, trailing comment, separator kind/run length, text after the slash, line splitting) leave the cleaned text / token sequence unchanged and strip_comments equals a quote-aware reference; at record level the real ParserRecord::parse -> ParserItem::scan -> scan_item/StarToken/readValueToken path shows n*v = v...v, n* = 1*...1*, lone * = 1*, early record end = trailing defaults for int and string items with symbolic values.',
             note='text <= 4 bytes per line (thorough 6), values of two symbolic digits/letters, 4 items; keyword recognition/size classes, INCLUDE, case folding, double/UDA tokens and whole decks outside; bytes >= 0x80 excluded (documented 7-bit tables)', design='4/C01'),
 'C20': dict(text='The kernels that touch untrusted bytes are executed on arbitrary byte strings (all 256 values) with the executor\'s memory model as oracle - every load/store/free is checked for bounds, lifetime and validity, allocations sized by untrusted counts are objects of symbolic size - plus "returns or throws a std::exception": parser text kernels (fast_clean, clean with a code keyword, slash/comment/trim/getline, RawRecord tokeniser, star and value tokens) and the unformatted Eclipse readers (all 24/48-byte header images incl. X231 and C0nn/stoi, array bodies with an arbitrary 64-bit element count).',
             note='inputs bounded (4 bytes of text, 12-20 byte array bodies, first record head <= 32 bytes); views are sub-views of a NUL-terminated buffer (loader contract); EclipseState/Schedule/SummaryConfig construction, formatted result files and allocation failure outside; uninitialised reads are not flagged', design='4/C20'),
})
CLAIMED.update({
 'C12': dict(text='Box (index lists for every sub-box and ACTNUM pattern, bounds validation) and the FieldProps.cpp operation kernels - apply(EQUALS/MULTIPLY/ADD/MINVALUE/MAXVALUE) in sequences of two operations, assign_deck with deck/default/empty entries - run on a 2x2x2 grid with symbolic activity, box corners, operands and value-status flags; every active cell is compared with a reference interpreter that only knows the global array, so the value in an active cell cannot depend on which other cells are inactive.',
             note='doubles as reals; 2x2x2 grid, a few cells with symbolic activity/status; section drivers, keyword dispatch and default tables, COPY/OPERATE/region variants and integer arrays outside', design='4/C12'),
})
CLAIMED.update({
 'C11': dict(text='Serializer<MemPacker>::pack/unpack run symbolically: every container handler (POD, string, vector, vector<bool>, array, optional, variant, pair/tuple, map, set, shared_ptr identity) and the real serializeOp of flat classes with every scalar member symbolic (doubles as arbitrary bit patterns); z3 decides that the unpacked object equals the original member by member (bit-exact), that the size pass equals the write pass, that unpack consumes exactly the packed bytes, and that re-packing gives the same bytes (same length where shared-pointer identities - raw addresses - are involved).',
             note='containers of 2-3 elements; EclipseState/Schedule/SummaryConfig and all pointer-rich classes (Well, Group, UDQConfig, ...) are outside: a member dropped from their serializeOp is not seen', design='4/C11'),
})
CLAIMED.update({
 'C19': dict(text='A DeckRecord with symbolic int/string values and a symbolic defaulted pattern is written with the real DeckRecord::write/DeckItem::write_vector/DeckOutput code (n* collapsing, separators, record end) to an in-memory stream, then tokenised and scanned back through the real RawRecord/ParserRecord::parse/ParserItem::scan/StarToken path; z3 decides on every path that values and defaulted flags are recovered and that writing the re-read record reproduces the text.',
             note='4 single-valued items; ints in (-100,1000) for two items, strings of 3 chars incl. embedded blank/slash/star; doubles, data arrays with line splitting, TITLE/code/table-collection shapes and FileDeck outside; ostringstream replaced by the stream model', design='4/C19'),
})
CLAIMED.update({
 'C03': dict(text='Narrow claim: only the copy-on-write mechanism behind "earlier report steps are immutable" is decided - ScheduleState::ptr_member<T> and map_member<K,T>, instantiated from the real header and executed with symbolic contents: after copying a state member and replacing/adding entries in the copy, every query on the original returns what it returned before (same values, same object addresses) and untouched entries remain shared.',
             note='the larger part of the property (every keyword handler\'s fetch-copy-modify-update discipline, iterateScheduleSection, the DATES/TSTEP partition) needs a whole Schedule and is outside: a handler that mutates through a shared pointer is not seen by this check', design='4/C03'),
})
CLAIMED.update({
 'C17': dict(text='Set and function algebra only: UDQSet/UDQScalar arithmetic in all operand forms (set-set, set-scalar, scalar-set, scalar-SET broadcast) with definedness propagation, and the UDQ function implementations (reductions SUM/AVEA/AVEH/MAX/MIN/PROD/NORM1/NORM2/NORMI, elemental ABS/DEF/UNDEF/IDV/EXP/SORTA/SORTD, union UADD/UMUL/UMAX/UMIN) are executed with symbolic values and symbolic defined-flags over a 3-well set and compared element by element with the documented semantics. (Found and fixed: scalar - set returned set - scalar.)',
             note='the expression parser (precedence ladder), AST evaluation, UDQConfig::eval ordering of ASSIGN/DEFINE/UPDATE, wildcard matching and UDQState are outside; doubles as reals, divisors non-zero', design='4/C17'),
})
CLAIMED.update({
 'C08': dict(text='A unified restart file of three report steps with symbolic, strictly increasing SEQNUM values is produced by the real writer on an in-memory file system; the real ERst (EclFile::load + initUnified) indexes it; for a symbolic requested step the real restartStepWritePosition/seekPosition and OutputStream::Restart::openUnified/openExisting (truncate + append) run and the result is re-read: the write position is the header of the first step >= s (or append), earlier steps are preserved byte for byte, the written step is last, the step list stays strictly increasing - one inductive step from any valid file. Truncation: a file cut at every byte offset either reads back exactly or raises an error (found and fixed: the readers branched on uninitialised control words).',
             note='file system, std::fstream family, std::filesystem::path/resize_file and isFormatted are models; 3 steps x 3 arrays, SEQNUM gaps 1..3; formatted restart files and EclipseIO\'s step selection outside', design='4/C08'),
})
CLAIMED.update({
 'C10': dict(text='The legacy reader\'s per-element access path ESmry::get -> loadData(vectList) runs on an in-memory summary data file with more than 1000 vectors: unformatted PARAMS records written by the real writer (probed value: arbitrary bit pattern) and formatted PARAMS text from a reference formatter of the published layout; for positions at the record-block boundaries and ends, in two ministeps, the value read must be the value written - i.e. the seek arithmetic equals the on-disk layout. (Found and fixed: strtof on an unterminated buffer in the formatted branch.)',
             note='ESmry object laid out by the harness; SMSPEC parsing, restart chains, ESMRY/ExtESmry and make_esmry_file, whole-PARAMS loadData() outside; positions are probed one path each (vector counts 1001/2500; thorough more)', design='4/C10'),
})
CLAIMED.update({
 'C09': dict(text='Summary.cpp is compiled as is, its static constructor builds the real keyword->function table `funs`, and 25 entries of the W/G/F x {O,W,G,L} x {P,I} x {R,T} families plus WWCT/WGOR/FWCT are evaluated on two real Opm::Well objects with symbolic rates, efficiency factors, step length and open/shut status: z3 proves each result equal to the defining expression (efficiency-weighted sum over flowing wells, sign split production/injection, liquid = oil + water, ratio definitions, total = rate x dt); SummaryState::update/update_well_var/update_group_var accumulate exactly the is_total keys and overwrite the others.',
             note='doubles as reals; two wells under one group with accumulated efficiency factors as inputs (group-tree walk efac() outside); history vectors, voidage, calendar vectors, unit conversion on output and SummaryConfig expansion outside; generated keyword defaults WPAVE (read by PAvg()) defined in the harness', design='4/C09'),
})
NA = {
 'C04': 'Schedule::applyAction re-iterates the SCHEDULE section through the keyword-handler registry of a fully constructed Schedule and the property compares two complete Schedule objects built from decks. No kernel of it is separable from whole-Schedule construction (parser keyword tables, ~200 translation units, std::function handler dispatch, hundreds of millions of interpreted IR instructions per path) - out of reach for the bounded symbolic execution this framework implements; the separable ingredients are decided under C03 (snapshot copy-on-write) and C18 (condition algebra and run limits).',
 'C05': 'End-to-end relation: write restart file -> load -> rebuild Schedule. Writer (Aggregate*Data) and reader (rst::*, Schedule::load_rst) both consume complete Schedule/SummaryState/UDQ/Action objects, which cannot be constructed symbolically within reach. Its encodable ingredients are decided under other ids and not re-claimed: array I/O C07, unified-file rewind C08, unit factors C02, inverse Peaceman C06.',
}
ALL = ['C%02d' % i for i in range(1, 21)]
def main():
    checks = []
    for pid in ALL:
        if pid not in CLAIMED: continue
        c = CLAIMED[pid]
        checks.append(dict(property_id=pid, quick_cmd='bin/check %s --tier quick' % pid, thorough_cmd='bin/check %s --tier thorough' % pid,
                           evidence_file='evidence/%s.json' % pid, replay_cmd_template='bin/replay {path}', engine='llsym',
                           level_claimed=dict(category='other', text=c['text'], design_ref='DESIGN.md section ' + c['design']),
                           level_note=c['note'], technique=c.get('technique', TECH)))
    na = [dict(property_id=p, reason=NA.get(p, 'no check built yet in this round (work in progress; see DESIGN.md section 4 for the plan)')) for p in ALL if p not in CLAIMED]
    m = dict(version=1, setup_cmd='bash bin/setup.sh',
             hooks=dict(guard='OPM_COMMON_VERIF', enable='harnesses are compiled with -DOPM_COMMON_VERIF=1 by engine/runner.py (no hook is currently needed in /repo)',
                        baseline_off_cmd='cmake --build /repo/_build -j16 && ctest --test-dir /repo/_build -j8 --timeout 900', source_commits=[], add_only=True),
             engines=[dict(name='llsym', path='engine/llsym.py', serves_properties=[c['property_id'] for c in checks], kind_free_text='KLEE-style path-forking symbolic executor over LLVM-14 IR (clang -O1 of the real sources), z3 as deciding solver'),
                      dict(name='ir2c+cbmc', path='engine/ir2c.py', serves_properties=[], kind_free_text='LLVM IR -> C translator feeding CBMC 6.11 (second, independent encoding for closed-form integer kernels)')],
             checks=checks, not_applicable=na,
             notes='All checks rebuild their encoding from /repo\'s working tree on every run (clang++-14 -> IR -> executor). Exit 0 = every obligation within the bounds discharged; exit 1 with VIOLATION line = natively reproduced counterexample; exit 1 with INCONCLUSIVE/ENCODER-MISMATCH = fail closed.')
    json.dump(m, open(os.path.join(V, 'MANIFEST.json'), 'w'), indent=1)
if __name__ == '__main__': main()
