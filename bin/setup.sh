#!/bin/bash
# Offline set-up: nothing to build for the framework itself (python + clang + z3 are pre-installed).
# The only build products the checks read are /repo/_build/config.h and the generated ParserKeywords headers;
# regenerate them with the repository's own generator if they are missing.
set -e
B=/repo/_build
if [ ! -f $B/config.h ] || [ ! -f $B/include/opm/input/eclipse/Parser/ParserKeywords/A.hpp ]; then
  if [ ! -f $B/build.ninja ]; then cmake -G Ninja -S /repo -B $B >/dev/null; fi
  ninja -C $B include/opm/input/eclipse/Parser/ParserKeywords/A.hpp >/dev/null
fi
# the library is only linked into the NATIVE replay of a counterexample (never into the solver-side encoding)
if [ ! -f $B/lib/libopmcommon.a ]; then ninja -C $B opmcommon >/dev/null 2>&1 || true; fi
python3-vt -c "import z3; print('z3', z3.get_version_string())"
clang++-14 --version | head -1
mkdir -p /verif/evidence /verif/_work /verif/replays
echo setup-ok
