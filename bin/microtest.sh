#!/bin/bash
# usage: microtest.sh <file.cpp> <entry> [llsym args]: compile a stand-alone harness and run the executor on it (engine development aid)
SRC=$1; ENT=$2; shift 2
V=$(cd "$(dirname "$0")/.." && pwd); O=/tmp/w/mt/$(basename $SRC .cpp)
clang++-14 -std=c++17 -O1 -fno-vectorize -fno-slp-vectorize -fno-unroll-loops -S -emit-llvm -Wno-everything -include $V/engine/noextern.h -DHAVE_CONFIG_H=1 -DFMT_SHARED -I/repo/_build -I/repo/_build/include -I/repo -isystem /root/miniconda/include -I$V/harness/include $SRC -o $O.0.ll || exit 1
opt-14 -S -internalize -internalize-public-api-list=$ENT -globaldce $O.0.ll -o $O.ll
python3-vt -c "import sys; sys.path.insert(0,'$V/engine'); sys.argv=['llsym','$O.ll','$ENT'] + sys.argv[1:]; import llsym; llsym.main()" "$@"
