#!/bin/bash
# usage: confirm_seed.sh <outdir e.g. /tmp/sw/out/C16_1> <worktree> : confirm a seeded change in a scratch worktree (tests pass, demo discriminates)
OUT=$1; WT=$2; ID=$(basename $OUT)
cd $WT && git checkout -q -- . && git apply --check $OUT/patch.diff || { echo "$ID: patch does not apply"; exit 1; }
DEMO_CMD=$(grep -m1 -E "g\+\+ .*demo" $OUT/README.txt | sed 's/^[^g]*//; s/`//g')
case "$DEMO_CMD" in *./demo*) ;; *) [ -n "$DEMO_CMD" ] && DEMO_CMD="$DEMO_CMD && ./demo" ;; esac
nice -n 5 ninja -C $WT/_build -j8 opmcommon > /dev/null 2>&1      # library from the clean sources
[ -z "$DEMO_CMD" ] && DEMO_CMD="g++ -std=c++17 -I$WT -I$WT/_build demo.cpp -o demo && ./demo"
( cd $OUT && eval "$DEMO_CMD" > clean_run.log 2>&1; echo "clean_exit=$?" > confirm.txt )
git apply $OUT/patch.diff
/tmp/sw/run_tests.sh $WT > $OUT/tests_with_patch.log 2>&1
( cd $OUT && eval "$DEMO_CMD" > patched_run.log 2>&1; echo "patched_exit=$?" >> confirm.txt )
git checkout -q -- .
tail -1 $OUT/tests_with_patch.log >> $OUT/confirm.txt
cat $OUT/confirm.txt
