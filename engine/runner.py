#!/usr/bin/env python3
"""Driver: builds each harness of a property from /repo's current working tree (clang -> LLVM IR -> internalize),
runs the symbolic executor (llsym, z3) on it, replays counterexamples natively, writes the evidence file.

usage: runner.py <PROPERTY-ID> [--tier quick|thorough] [--only <job-substring>] [--keep] [--jobs N]
"""
import sys, os, json, time, subprocess, shutil, hashlib, importlib.util, re, argparse
from concurrent.futures import ThreadPoolExecutor

VERIF = os.path.dirname(os.path.dirname(os.path.abspath(__file__)))
REPO = os.environ.get('VERIF_REPO', '/repo')
BUILD = os.path.join(REPO, '_build')
ENGINE = os.path.join(VERIF, 'engine')
PY = shutil.which('python3-vt') or '/usr/local/bin/python3-vt'

INC = ['-DHAVE_CONFIG_H=1', '-DFMT_SHARED', '-DOPM_COMMON_VERIF=1', '-I' + BUILD, '-I' + BUILD + '/include', '-I' + REPO, '-I/usr/include/cjson',
       '-isystem', '/root/miniconda/include', '-I' + os.path.join(VERIF, 'harness', 'include')]
IRFLAGS = ['clang++-14', '-std=c++17', '-O1', '-fno-vectorize', '-fno-slp-vectorize', '-fno-unroll-loops', '-S', '-emit-llvm',
           '-Wno-everything', '-include', os.path.join(ENGINE, 'noextern.h')]


def sh(cmd, **kw):
    return subprocess.run(cmd, stdout=subprocess.PIPE, stderr=subprocess.STDOUT, text=True, **kw)


def defs_flags(defs):
    return ['-D%s=%s' % (k, v) if v is not None else '-D' + k for k, v in sorted((defs or {}).items())]


class Build:
    """per-run compilation cache (nothing survives the run: the work dir is wiped at start)"""
    def __init__(s, work):
        s.work = work; s.cache = {}; s.lock = __import__('threading').Lock()

    def ir(s, src, defs, extra_flags=()):
        key = hashlib.md5((src + repr(sorted((defs or {}).items())) + repr(extra_flags)).encode()).hexdigest()[:12]
        out = os.path.join(s.work, os.path.basename(src).replace('.', '_') + '_' + key + '.ll')
        with s.lock:
            st = s.cache.get(out)
            if st is None:
                st = s.cache[out] = {'lock': __import__('threading').Lock(), 'done': False, 'err': None}
        with st['lock']:
            if not st['done']:
                r = sh(IRFLAGS + list(extra_flags) + INC + defs_flags(defs) + [src, '-o', out])
                st['done'] = True
                if r.returncode != 0: st['err'] = r.stdout[-4000:]
        if st['err']: raise RuntimeError('compile failed: %s\n%s' % (src, st['err']))
        return out


def run_job(job, bld, work, tier):
    """returns result dict (llsym's json + bookkeeping)"""
    t0 = time.time()
    name = job['name']
    res = dict(name=name, job={k: v for k, v in job.items() if k not in ('tus',)}, tus=job.get('tus', []))
    try:
        src = job['src'] if os.path.isabs(job['src']) else os.path.join(VERIF, 'harness', job['prop'], job['src'])
        lls = [bld.ir(src, job.get('defs'), tuple(job.get('cflags', ())))]
        for tu in job.get('tus', []):
            lls.append(bld.ir(os.path.join(REPO, tu), job.get('tudefs'), tuple(job.get('cflags', ()))))
        linked = os.path.join(work, name + '.link.ll'); mod = os.path.join(work, name + '.ll')
        if len(lls) > 1:
            r = sh(['llvm-link-14', '-S'] + lls + ['-o', linked])
            if r.returncode != 0: raise RuntimeError('llvm-link failed: ' + r.stdout[-2000:])
        else: linked = lls[0]
        r = sh(['opt-14', '-S', '-internalize', '-internalize-public-api-list=' + job['entry'], '-globaldce', linked, '-o', mod])
        if r.returncode != 0: raise RuntimeError('opt failed: ' + r.stdout[-2000:])
        res['ir_lines'] = sum(1 for _ in open(mod))
        res['build_s'] = round(time.time() - t0, 2)
        out = os.path.join(work, name + '.json')
        cmd = [PY, os.path.join(ENGINE, 'llsym.py'), mod, job['entry'], '--fp', job.get('fp', 'real'), '--loopmax', str(job.get('loopmax', 64)),
               '--maxsteps', str(job.get('maxsteps', 400000)), '--json', out, '--timeout', str(job.get('timeout', 280 if tier == 'quick' else 2300))]
        if job.get('allow_uncaught'): cmd.append('--allow-uncaught')
        for o in job.get('opts', ()): cmd.append(o)
        try:
            r = sh(cmd, timeout=job.get('timeout', 280 if tier == 'quick' else 2300) + 60)
        except subprocess.TimeoutExpired:
            res.update(status='TIMEOUT', log='executor killed after timeout'); return res
        res['log'] = r.stdout[-3000:]
        if os.path.exists(out): res.update(json.load(open(out)))
        else: res.update(status='ERROR')
    except Exception as e:
        res.update(status='ERROR', log=str(e)[-4000:])
    res['total_s'] = round(time.time() - t0, 2)
    return res


def load_jobs(prop, tier):
    p = os.path.join(VERIF, 'harness', prop, 'jobs.py')
    spec = importlib.util.spec_from_file_location('jobs_' + prop, p)
    mod = importlib.util.module_from_spec(spec); spec.loader.exec_module(mod)
    jobs = mod.jobs(tier)
    for j in jobs: j['prop'] = prop
    return jobs, mod


def known_findings(prop):
    out = []
    p = os.path.join(VERIF, 'known_findings.txt')
    if os.path.exists(p):
        for ln in open(p):
            ln = ln.strip()
            m = re.match(r'open:\s+property=(\S+)\s+job=(\S+)\s+match=(\S+)\s+exclude=(\S+)\s+(.*)', ln)
            if m and m.group(1) == prop:
                out.append(dict(job=m.group(2), match=m.group(3), exclude=m.group(4), text=m.group(5)))
    return out


def main():
    ap = argparse.ArgumentParser()
    ap.add_argument('prop'); ap.add_argument('--tier', default=os.environ.get('VERIF_TIER', 'quick'))
    ap.add_argument('--only'); ap.add_argument('--keep', action='store_true'); ap.add_argument('--jobs', type=int, default=int(os.environ.get('VERIF_JOBS', '16')))
    a = ap.parse_args()
    prop = a.prop; tier = a.tier
    seed = int(os.environ.get('VERIF_SEED', '0') or 0)
    t0 = time.time()
    # one work directory per invocation (concurrent runs of the same property must not share it); --keep leaves it under a stable name
    work = os.path.join(VERIF, '_work', prop + '_' + tier + ('' if a.keep else '_%d' % os.getpid()))
    shutil.rmtree(work, ignore_errors=True); os.makedirs(work)
    ensure_generated()
    jobs, mod = load_jobs(prop, tier)
    if a.only: jobs = [j for j in jobs if a.only in j['name']]
    bld = Build(work)
    with ThreadPoolExecutor(max_workers=a.jobs) as ex:
        results = list(ex.map(lambda j: run_job(j, bld, work, tier), jobs))

    kf = known_findings(prop)
    violations = []; inconclusive = []; known = []
    # known findings: re-run the job with the excluding define so that the rest of the input space is still decided
    for idx, (j, r) in enumerate(zip(jobs, results)):
        if r.get('status') == 'VIOLATION':
            for k in kf:
                if k['job'] == j['name'] and re.search(k['match'], r['violation']['msg'] + ' ' + r['violation']['kind']):
                    known.append((j, r, k))
                    j2 = dict(j); j2['defs'] = dict(j.get('defs') or {}); j2['defs'][k['exclude']] = 1; j2['name'] = j['name'] + '_excl'
                    r2 = run_job(j2, bld, work, tier); r2['known_finding_excluded'] = k['text']
                    results[idx] = r2
                    break
    for j, r in zip(jobs, results):
        s = r.get('status')
        if s == 'OK':
            if r.get('bound_hits', 0): inconclusive.append((j, r, 'bound hit'))
            elif r.get('assert_checks', 0) == 0 and not j.get('no_asserts'): inconclusive.append((j, r, 'vacuous: no assertion reached'))
            elif r.get('assert_sites_reached', 0) < r.get('assert_sites_total', 0) and not j.get('partial_sites'):
                inconclusive.append((j, r, 'vacuous: %d of %d assertion sites never reached' % (r['assert_sites_total'] - r['assert_sites_reached'], r['assert_sites_total'])))
        elif s == 'VIOLATION':
            k = r['violation']['kind']
            if k == 'bound' and j.get('bound_is_hang') and 'visited more than' in r['violation']['msg'] and r['violation'].get('inputs'):
                # a loop that outruns its bound on an input of bounded size: candidate hang, decided by the native replay (must not terminate)
                r['violation']['kind'] = 'hang'; violations.append((j, r))
            elif k in ('bound', 'unsupported', 'inconclusive'): inconclusive.append((j, r, k + ': ' + r['violation']['msg']))
            else: violations.append((j, r))
        else: inconclusive.append((j, r, s or 'ERROR'))

    # replay
    lines = []
    confirmed = 0
    if violations:
        import replay
        os.makedirs(os.path.join(VERIF, 'replays', prop), exist_ok=True)
        def do_replay(jr):
            j, r = jr
            path = os.path.join(VERIF, 'replays', prop, j['name'] + '.json')
            json.dump(dict(property=prop, job=j, violation=r['violation'], fp=r.get('fp')), open(path, 'w'), indent=1)
            return path, replay.replay(j, r, work, INC)
        with ThreadPoolExecutor(max_workers=a.jobs) as ex:
            reps = list(ex.map(do_replay, violations[:12]))
        for (j, r), (path, (verdict, info)) in zip(violations[:12], reps):
            r['replay'] = dict(verdict=verdict, info=info[-1500:], path=path)
            if verdict == 'reproduced':
                confirmed += 1
                lines.append('VIOLATION property=%s replay=%s' % (prop, path))
            else:
                lines.append('ENCODER-MISMATCH property=%s job=%s (%s) replay=%s' % (prop, j['name'], verdict, path))
    for j, r, k in known: lines.append('KNOWN-FINDING: property=%s %s' % (prop, k['text']))
    for j, r, why in inconclusive: lines.append('INCONCLUSIVE property=%s job=%s: %s' % (prop, j['name'], why))

    wall = time.time() - t0
    write_evidence(prop, tier, seed, jobs, results, mod, wall, confirmed, inconclusive, partial=bool(a.only))
    for j, r in zip(jobs, results):
        print('%-40s %-10s paths=%-6s asserts=%s/%s checks=%-6s queries=%-6s solver=%ss total=%ss' % (r['name'], r.get('status'), r.get('paths'), r.get('assert_sites_reached'), r.get('assert_sites_total'),
              r.get('assert_checks'), r.get('queries'), r.get('solver_s'), r.get('total_s')))
        if r.get('status') != 'OK': print('    ' + (r.get('log') or '').strip().replace('\n', '\n    ')[-1800:])
    for l in lines: print(l)
    print('%s %s: %d jobs, %d violations (%d reproduced), %d inconclusive, %.1fs' % (prop, tier, len(jobs), len(violations), confirmed, len(inconclusive), wall))
    if not a.keep: shutil.rmtree(work, ignore_errors=True)
    sys.exit(1 if (violations or inconclusive) else 0)


def ensure_generated():
    """the only build products used: config.h and the generated ParserKeywords headers"""
    need = [os.path.join(BUILD, 'config.h'), os.path.join(BUILD, 'include/opm/input/eclipse/Parser/ParserKeywords/A.hpp')]
    if all(os.path.exists(p) for p in need): return
    r = sh(['bash', os.path.join(VERIF, 'bin', 'setup.sh')])
    if r.returncode != 0: print(r.stdout[-3000:]); sys.exit(2)


def write_evidence(prop, tier, seed, jobs, results, mod, wall, confirmed, inconclusive, partial=False):
    funcs = set(); stubs = set()
    q = 0; paths = 0; checks = 0; sites = 0; solver = 0.0; samples = []
    for j, r in zip(jobs, results):
        funcs.update(f for f in r.get('functions', []) if not f.startswith('_ZNSt') and not f.startswith('_ZSt') and not f.startswith('_ZN9__gnu_cxx'))
        stubs.update(r.get('stubs', []))
        q += r.get('queries', 0); paths += sum(v for k, v in (r.get('outcomes') or {}).items() if k != 'infeasible')
        checks += r.get('assert_checks', 0); sites += r.get('assert_sites_reached', 0); solver += r.get('solver_s', 0)
        if r.get('samples'):
            samples.append(dict(job=r['name'], entry=r.get('entry'), defs=j.get('defs'), bounds=j.get('bounds'), status=r.get('status'), paths=r.get('paths'), example_path=r['samples'][0]))
    ev = dict(property_id=prop, tier=tier, seed=seed, level='other', wall_s=round(wall, 2), violations=confirmed,
              coverage=dict(
                  explanation=getattr(mod, 'EXPLANATION', '') + ' Bounded symbolic execution of the LLVM IR clang produces from /repo\'s current sources; every feasible path within the stated bounds is enumerated by the executor and every assertion on it is decided by z3 (unsat of path-condition AND NOT assertion = holds for all inputs on that path; sat = counterexample, replayed natively). A bound hit, solver unknown or unsupported construct makes the check fail closed.',
                  evaluations=q, distinct_nontrivial=paths,
                  rule='evaluations = solver queries discharged; distinct_nontrivial = feasible paths explored to their end (each a distinct path condition over the symbolic inputs); obligations = assertion checks (site x path) decided; samples = per harness the first explored path',
                  obligations=checks, discharged=checks - confirmed if not inconclusive else max(0, checks - confirmed - len(inconclusive)),
                  assertion_sites=sites, solver_s=round(solver, 2), harnesses=len(jobs),
                  inconclusive=[dict(job=j['name'], why=why) for j, r, why in inconclusive],
                  bounds=getattr(mod, 'BOUNDS', ''), outside=getattr(mod, 'OUTSIDE', ''),
                  functions_encoded=sorted(funcs)[:400], functions_encoded_count=len(funcs), stubs=sorted(stubs),
                  per_harness=[dict(job=r['name'], status=r.get('status'), fp=r.get('fp'), paths=r.get('paths'), outcomes=r.get('outcomes'), queries=r.get('queries'), solver_s=r.get('solver_s'),
                                    max_query_s=r.get('max_query_s'), steps=r.get('steps'), loopmax=r.get('loopmax'), ir_lines=r.get('ir_lines'), assert_checks=r.get('assert_checks'),
                                    total_s=r.get('total_s'), bounds=j.get('bounds'), replay=r.get('replay'), known_finding_excluded=r.get('known_finding_excluded')) for j, r in zip(jobs, results)],
                  samples=samples[:40], exhaustive=False),
              assumptions=list(getattr(mod, 'ASSUMPTIONS', [])) + COMMON_ASSUMPTIONS)
    os.makedirs(os.path.join(VERIF, 'evidence'), exist_ok=True)
    # a run restricted with --only (development aid) must not replace the evidence of the full check
    json.dump(ev, open(os.path.join(VERIF, 'evidence', prop + ('.partial.json' if partial else '.json')), 'w'), indent=1)


COMMON_ASSUMPTIONS = [
    'clang-14 -O1 IR of the translation units is a faithful compilation of the C++ sources (the shipped library is built with g++); clang, opt-14, llvm-link-14 trusted',
    'the IR parser and symbolic executor (engine/ir2c.py parser, engine/llsym.py) implement LLVM semantics correctly for the instructions met; z3 5.1 trusted',
    'operator new never fails; std::string/std::vector members are executed from libstdc++ headers (instantiated in the module), error-message formatting (std::to_string, fmt, OpmLog) stubbed to empty',
    "fp mode 'real': doubles are mathematical reals, libm functions uninterpreted (plus axioms stated per harness), rounding/NaN/Inf outside the claim; fp mode 'ieee': bit-exact IEEE-754",
    'claims are bounded: input sizes, loop bound (per-path block visit count) and step budget as listed under bounds/per_harness; beyond them nothing is claimed',
]

if __name__ == '__main__':
    sys.path.insert(0, ENGINE)
    main()
