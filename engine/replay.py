"""Native replay of a solver counterexample: the same harness source compiled with g++ (ASan+UBSan) against the real sources."""
import os, subprocess, json, fractions
VERIF = os.path.dirname(os.path.dirname(os.path.abspath(__file__)))
REPO = os.environ.get('VERIF_REPO', '/repo')
LIBS = ['-L' + REPO + '/_build/lib', '-Wl,--allow-multiple-definition', '-lopmcommon', '/root/miniconda/lib/libfmt.so', '-Wl,-rpath,/root/miniconda/lib',
        '-lboost_system', '-lcjson', '-lgomp', '-lpthread', '-ldl']

def write_inputs(viol, path, fp):
    with open(path, 'w') as f:
        for name, val in viol.get('inputs', []):
            if name.startswith('file_'): f.write('b %d\n' % (val or 0)); continue
            if isinstance(val, list): f.write('d %r\n' % (float(fractions.Fraction(val[0], val[1])))); continue
            if isinstance(val, dict) and 'fpbits' in val: f.write('i %d\n' % val['fpbits']); continue
            if isinstance(val, str):
                try: f.write('d %r\n' % float(val.rstrip('?'))); continue
                except ValueError: f.write('i 0\n'); continue
            f.write('i %d\n' % (val or 0))

def replay(job, res, work, inc):
    viol = res['violation']
    src = job['src'] if os.path.isabs(job['src']) else os.path.join(VERIF, 'harness', job['prop'], job['src'])
    exe = os.path.join(work, job['name'] + '.native')
    defs = ['-D%s=%s' % (k, v) for k, v in sorted((job.get('defs') or {}).items())]
    cmd = ['g++', '-std=c++17', '-O1', '-g', '-fsanitize=address,undefined', '-fno-sanitize-recover=undefined', '-DVERIF_NATIVE=1', '-w', '-rdynamic'] + inc + defs + \
          [src] + [os.path.join(REPO, t) for t in job.get('tus', [])] + [os.path.join(VERIF, 'engine', 'native_rt.cpp'), '-o', exe] + LIBS
    r = subprocess.run(cmd, stdout=subprocess.PIPE, stderr=subprocess.STDOUT, text=True)
    if r.returncode != 0: return 'native-build-failed', r.stdout
    inp = os.path.join(work, job['name'] + '.inputs'); write_inputs(viol, inp, res.get('fp'))
    # the entry is selected by name: a tiny main is linked through -DVERIF_NATIVE in verif.h (verif_main)
    entry = viol['msg'].split(']')[0].lstrip('[') if viol['msg'].startswith('[') else job['entry'].split(',')[0]
    env = dict(os.environ, VERIF_INPUTS=inp, VERIF_ENTRY=entry, ASAN_OPTIONS='detect_leaks=0:abort_on_error=0', UBSAN_OPTIONS='print_stacktrace=1')
    try: r = subprocess.run([exe], stdout=subprocess.PIPE, stderr=subprocess.STDOUT, text=True, env=env, timeout=(30 if viol['kind'] == 'hang' else 120), errors='replace')
    except subprocess.TimeoutExpired: return ('reproduced' if viol['kind'] in ('bound', 'hang') else 'native-timeout'), 'native run did not terminate within the time limit'
    out = r.stdout
    kind = viol['kind']
    if r.returncode == 3 and kind == 'assert': return 'reproduced', out
    if r.returncode == 4: return 'assume-false-natively', out
    if r.returncode not in (0, 3, 4) and kind in ('memory', 'abort', 'ub', 'uncaught'): return 'reproduced', out
    if r.returncode == 3 and kind != 'assert': return 'reproduced-as-assert', out
    if r.returncode == 0: return 'not-reproduced', out
    return 'native-exit-%d' % r.returncode, out
