// Native replay runtime: the harness vocabulary implemented on concrete inputs taken from a solver model.
// Input file (env VERIF_INPUTS): one value per line in call order: "i <unsigned decimal>" | "d <double as %a or decimal>" | "b <byte>" (memfile bytes)
#include <cstdio>
#include <cstdlib>
#include <cstring>
#include <cstdint>
#include <string>
#include <vector>
#include <fstream>
#include <unistd.h>
namespace {
struct In { char k; unsigned long long i; double d; };
std::vector<In> ins; size_t pos = 0; bool loaded = false; int asserts_run = 0;
void load() {
    if (loaded) return; loaded = true;
    const char* p = std::getenv("VERIF_INPUTS"); if (!p) return;
    FILE* f = std::fopen(p, "r"); if (!f) return;
    char k; char buf[256];
    while (std::fscanf(f, " %c %255s", &k, buf) == 2) { In x; x.k = k; x.i = 0; x.d = 0; if (k == 'd') x.d = std::strtod(buf, nullptr); else x.i = std::strtoull(buf, nullptr, 10); ins.push_back(x); }
    std::fclose(f);
}
In next(char want) { load(); while (pos < ins.size() && want != 'b' && ins[pos].k == 'b') ++pos; if (pos >= ins.size()) { In z; z.k = want; z.i = 0; z.d = 0; return z; } return ins[pos++]; }
}
extern "C" {
unsigned char nondet_uchar(void) { return (unsigned char) next('i').i; }
char nondet_char(void) { return (char) next('i').i; }
int nondet_int(void) { return (int) next('i').i; }
unsigned nondet_uint(void) { return (unsigned) next('i').i; }
long nondet_long(void) { return (long) next('i').i; }
unsigned long nondet_ulong(void) { return (unsigned long) next('i').i; }
bool nondet_bool(void) { return next('i').i & 1; }
double verif_nondet_real(void) { In x = next('d'); if (x.k == 'i') { double d; uint64_t b = x.i; std::memcpy(&d, &b, 8); return d; } return x.d; }
float verif_nondet_float(void) { In x = next('d'); if (x.k == 'i') { float d; uint32_t b = (uint32_t) x.i; std::memcpy(&d, &b, 4); return d; } return (float) x.d; }
void __CPROVER_assume(bool c) { if (!c) { std::printf("VERIF-ASSUME-FALSE (model does not satisfy the harness precondition natively)\n"); std::fflush(stdout); std::_Exit(4); } }
void __VERIFIER_assert(bool c) { ++asserts_run; if (!c) { std::printf("VERIF-ASSERT-FAIL (assertion #%d in execution order)\n", asserts_run); std::fflush(stdout); std::_Exit(3); } }
void verif_observe(long tag, long value) { std::printf("OBS %ld %ld\n", tag, value); }
// memfile: the symbolic file image becomes a real temporary file
std::fstream* verif_memfile(unsigned long n) {
    load();
    static char name[] = "/tmp/verif_memfile_XXXXXX"; int fd = mkstemp(name);
    std::string data; size_t k = 0;
    for (auto& x : ins) if (x.k == 'b' && k < n) { data.push_back((char) x.i); ++k; }
    data.resize(n, 0);
    if (::write(fd, data.data(), data.size()) < 0) {} ::close(fd);
    auto* f = new std::fstream(name, std::ios::in | std::ios::out | std::ios::binary); ::unlink(name); return f;
}
}
