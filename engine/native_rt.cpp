// Native replay runtime: the harness vocabulary implemented on concrete inputs taken from a solver model.
// Input file (env VERIF_INPUTS): one value per line in call order: "i <unsigned decimal>" | "d <double as %a or decimal>" | "b <byte>" (memfile bytes)
#include <cstdio>
#include <cstdlib>
#include <cstring>
#include <cstdint>
#include <string>
#include <vector>
#include <fstream>
#include <unistd.h>
namespace {
struct In { char k; unsigned long long i; double d; };
std::vector<In> ins; size_t pos = 0; bool loaded = false; int asserts_run = 0;
void load() {
    if (loaded) return; loaded = true;
    const char* p = std::getenv("VERIF_INPUTS"); if (!p) return;
    FILE* f = std::fopen(p, "r"); if (!f) return;
    char k; char buf[256];
    while (std::fscanf(f, " %c %255s", &k, buf) == 2) { In x; x.k = k; x.i = 0; x.d = 0; if (k == 'd') x.d = std::strtod(buf, nullptr); else x.i = std::strtoull(buf, nullptr, 10); ins.push_back(x); }
    std::fclose(f);
}
In next(char want) { load(); while (pos < ins.size() && want != 'b' && ins[pos].k == 'b') ++pos; if (pos >= ins.size()) { In z; z.k = want; z.i = 0; z.d = 0; return z; } return ins[pos++]; }
}
extern "C" {
unsigned char nondet_uchar(void) { return (unsigned char) next('i').i; }
char nondet_char(void) { return (char) next('i').i; }
int nondet_int(void) { return (int) next('i').i; }
unsigned nondet_uint(void) { return (unsigned) next('i').i; }
long nondet_long(void) { return (long) next('i').i; }
unsigned long nondet_ulong(void) { return (unsigned long) next('i').i; }
bool nondet_bool(void) { return next('i').i & 1; }
double verif_nondet_real(void) { In x = next('d'); if (x.k == 'i') { double d; uint64_t b = x.i; std::memcpy(&d, &b, 8); return d; } return x.d; }
float verif_nondet_float(void) { In x = next('d'); if (x.k == 'i') { float d; uint32_t b = (uint32_t) x.i; std::memcpy(&d, &b, 4); return d; } return (float) x.d; }
static int assumes_run = 0;
void __CPROVER_assume(bool c) { ++assumes_run; if (!c) { std::printf("VERIF-ASSUME-FALSE (model does not satisfy the harness precondition natively; assumption #%d in execution order)\n", assumes_run); std::fflush(stdout); std::_Exit(4); } }
void __VERIFIER_assert(bool c) { ++asserts_run; if (!c) { std::printf("VERIF-ASSERT-FAIL (assertion #%d in execution order)\n", asserts_run); std::fflush(stdout); std::_Exit(3); } }
unsigned long verif_concretize(unsigned long n, unsigned long) { return n; }
void verif_observe(long tag, long value) { std::printf("OBS %ld %ld\n", tag, value); }
// memfiles: file id k is the real file <tmpdir>/mf_<k>; the harness opens its writer on verif_memfile_path(k) when built natively
#include <sys/stat.h>
static std::string mf_dir() { static std::string d; if (d.empty()) { char t[] = "/tmp/verif_mf_XXXXXX"; d = mkdtemp(t); } return d; }
static int mf_count = 0;
static std::string mf_names[64];
const char* verif_memfile_path(long fid) { static std::string p[64]; p[fid % 64] = mf_names[fid % 64].empty() ? mf_dir() + "/mf_" + std::to_string(fid) : mf_names[fid % 64]; return p[fid % 64].c_str(); }
// a named file: the harness refers to it by a relative name, so the process moves into the scratch directory
void verif_memfile_name(long fid, const char* name) {
    if (chdir(mf_dir().c_str()) != 0) {}
    std::string old = verif_memfile_path(fid); struct stat sb;
    if (old != name && stat(old.c_str(), &sb) == 0) rename(old.c_str(), name);     // content created before the file got its name
    mf_names[fid % 64] = name;
}
static std::string mf_read(long fid) { std::ifstream f(verif_memfile_path(fid), std::ios::binary); return std::string((std::istreambuf_iterator<char>(f)), std::istreambuf_iterator<char>()); }
static void mf_write(long fid, const std::string& d) { std::ofstream f(verif_memfile_path(fid), std::ios::binary | std::ios::trunc); f.write(d.data(), d.size()); }
std::fstream* verif_memfile(unsigned long n) {
    load(); long fid = ++mf_count;
    std::string data; size_t k = 0;
    for (auto& x : ins) if (x.k == 'b' && k < n) { data.push_back((char) x.i); ++k; }
    data.resize(n, 0); mf_write(fid, data);
    return new std::fstream(verif_memfile_path(fid), std::ios::in | std::ios::out | std::ios::binary);
}
static int mf_anon = 900;
std::fstream* verif_memfile_new(void) { long fid = ++mf_anon; mf_write(fid, ""); return new std::fstream(verif_memfile_path(fid), std::ios::in | std::ios::out | std::ios::binary); }
void verif_stream_bind(void* p, long fid, long kind) {
    if (kind == 2) { auto* f = static_cast<std::fstream*>(p); f->close(); f->clear(); f->open(verif_memfile_path(fid), std::ios::in | std::ios::out | std::ios::binary); }
    else if (kind == 1) { auto* f = static_cast<std::ifstream*>(p); f->close(); f->clear(); f->open(verif_memfile_path(fid), std::ios::in | std::ios::binary); }
    /* kind 0: the writer object was constructed by the harness on verif_memfile_path(fid) */
}
long verif_memfile_size(long fid) { return (long) mf_read(fid).size(); }
unsigned char verif_memfile_byte(long fid, long i) { static long cf = -1; static std::string c; static long csz = -1; std::string d; struct stat sb; 
    if (cf != fid || stat(verif_memfile_path(fid), &sb) != 0 || sb.st_size != csz) { c = mf_read(fid); cf = fid; csz = (long) c.size(); }
    return i < (long) c.size() ? (unsigned char) c[i] : 0; }
void verif_memfile_setbyte(long fid, long i, unsigned char b) {
    // in place (the formatted summary harnesses build files of several hundred kilobytes byte by byte)
    FILE* f = std::fopen(verif_memfile_path(fid), "r+b"); if (!f) f = std::fopen(verif_memfile_path(fid), "w+b");
    std::fseek(f, 0, SEEK_END); long sz = std::ftell(f);
    for (; sz < i; ++sz) std::fputc(0, f);
    std::fseek(f, i, SEEK_SET); std::fputc(b, f); std::fclose(f);
}
void verif_memfile_truncate(long fid, long n) { std::string d = mf_read(fid); if ((long) d.size() > n) d.resize(n); mf_write(fid, d); }
void verif_memfile_rewind(long) { }
long verif_memfile_gpos(long) { return -1; }   /* not observable natively */
int verif_memfile_failed(long) { return 0; }
}
