"""C++ runtime / iostream model for the symbolic executor (trusted base; every stub used is listed in the evidence).

Streams: all std::istream / std::ostream member calls act on in-memory files ("memfiles") held in the state.
A stream object is bound to a memfile by verif_stream_bind(ptr, file_id) (or by the verif_memfile* constructors);
unbound streams use file 0.  State bits are mirrored into the basic_ios sub-object when the harness planted a
fake vtable with verif_stream_init (so inlined eof()/fail()/good()/width() work on the dummy object).
"""
import z3, struct
from ir2c import I8, I32, I64, PTR

NOT = object()
# functions modelled here even when the module contains a definition (instantiated from libstdc++ headers)
FORCED = {
    '_ZNSt7__cxx1119basic_ostringstreamIcSt11char_traitsIcESaIcEEC1Ev', '_ZNSt7__cxx1119basic_ostringstreamIcSt11char_traitsIcESaIcEEC1ESt13_Ios_Openmode',
    '_ZNSt7__cxx1119basic_ostringstreamIcSt11char_traitsIcESaIcEED1Ev', '_ZNSt7__cxx1119basic_ostringstreamIcSt11char_traitsIcESaIcEED2Ev',
    '_ZNKSt7__cxx1119basic_ostringstreamIcSt11char_traitsIcESaIcEE3strEv',
    '_ZNSt7__cxx1119basic_istringstreamIcSt11char_traitsIcESaIcEEC1ERKNS_12basic_stringIcS2_S3_EESt13_Ios_Openmode',
    '_ZNSt7__cxx1119basic_istringstreamIcSt11char_traitsIcESaIcEED1Ev', '_ZNSt7__cxx1119basic_istringstreamIcSt11char_traitsIcESaIcEED2Ev',
    '_ZSt7getlineIcSt11char_traitsIcESaIcEERSt13basic_istreamIT_T0_ES7_RNSt7__cxx1112basic_stringIS4_S5_T1_EES4_',
    '_ZSt7getlineIcSt11char_traitsIcESaIcEERSt13basic_istreamIT_T0_ES7_RNSt7__cxx1112basic_stringIS4_S5_T1_EE',
    '_ZSt16__ostream_insertIcSt11char_traitsIcEERSt13basic_ostreamIT_T0_ES6_PKS3_l',
    '_ZNSolsEi', '_ZNSolsEl', '_ZNSo9_M_insertIlEERSoT_', '_ZNSo9_M_insertImEERSoT_', '_ZNSolsEj', '_ZNSolsEm',
    '_ZSt4endlIcSt11char_traitsIcEERSt13basic_ostreamIT_T0_ES6_', '_ZSt5flushIcSt11char_traitsIcEERSt13basic_ostreamIT_T0_ES6_',
    '_ZNSi4readEPcl', '_ZNSo5writeEPKcl', '_ZNSo5flushEv', '_ZNSi5tellgEv', '_ZNSi5seekgElSt12_Ios_Seekdir', '_ZNSi5seekgESt4fposI11__mbstate_tE',
    '_ZNSo5tellpEv', '_ZNSo5seekpElSt12_Ios_Seekdir', '_ZNSo5seekpESt4fposI11__mbstate_tE', '_ZNSo3putEc', '_ZNSi3getEv', '_ZNSi4peekEv',
    '_ZNSt9basic_iosIcSt11char_traitsIcEE5clearESt12_Ios_Iostate',
}
EOFBIT = 2; FAILBIT = 4; BADBIT = 1
IOS_STATE_OFF = 32   # std::ios_base::_M_streambuf_state
IOS_WIDTH_OFF = 16   # std::ios_base::_M_width
IOS_PREC_OFF = 8
IOS_FLAGS_OFF = 24
IOS_FILL_OFF = 224   # std::basic_ios::_M_fill (char) ; _M_fill_init at 225


def isc(v): return isinstance(v, int) and not isinstance(v, bool)


def mf_get(st, fid):
    mf = st.mfs.get(fid)
    if mf is None:
        mf = st.mfs[fid] = dict(data=[], g=0, p=0, state=0, ios=[], gcount=0)
    return mf


def fid_of(st, p):
    # stream pointer -> file id: exact object binding, any offset inside the bound object
    b = getattr(st, 'sbind', None)
    if b and p.obj in b: return b[p.obj]
    return 0


def live_ios(st, mf):
    mf['ios'] = [(o, f) for (o, f) in mf['ios'] if st.objs.get(o) is not None and not st.objs[o].freed]
    return mf['ios']


def set_state(ex, st, mf, bits):
    mf['state'] |= bits
    for (obj, off) in live_ios(st, mf):
        from llsym import Ptr
        ex.store_val(st, Ptr(obj, off + IOS_STATE_OFF), I32, mf['state'])


def clear_state(ex, st, mf, bits=None):
    mf['state'] = 0 if bits is None else (mf['state'] & ~bits)
    for (obj, off) in live_ios(st, mf):
        from llsym import Ptr
        ex.store_val(st, Ptr(obj, off + IOS_STATE_OFF), I32, mf['state'])


def cstr(ex, st, p, maxlen=4096):
    from llsym import Ptr, Violation
    out = []
    for i in range(maxlen):
        b = ex.load_val(st, Ptr(p.obj, p.off + i), I8)
        if isc(b) and b == 0: return out
        out.append(b)
    raise Violation('bound', 'C string longer than %d' % maxlen, st)


def emit(ex, st, mf, bytes_):
    """write bytes at the put position"""
    d = mf['data']; p = mf['p']
    for i, b in enumerate(bytes_):
        if p + i < len(d): d[p + i] = b
        else:
            while len(d) < p + i: d.append(0)
            d.append(b)
    mf['p'] = p + len(bytes_)
    if mf.get('sbuf') is not None: sync_stringbuf(ex, st, mf)


def sync_stringbuf(ex, st, mf):
    """std::ostringstream: str() is inlined and reads pbase/pptr/egptr of the stringbuf, so keep them pointing at a copy of the content"""
    from llsym import Ptr, NULL
    obj, off = mf['sbuf']; d = mf['data']; n = len(d)
    buf = ex.new_obj(st, n + 1, 'stringbuf-content')
    for i, b in enumerate(d): ex.store_val(st, Ptr(buf, i), I8, b)
    sb = off + 8
    for k in (8, 16, 24): ex.store_val(st, Ptr(obj, sb + k), PTR(I8), NULL)          # eback gptr egptr
    ex.store_val(st, Ptr(obj, sb + 32), PTR(I8), Ptr(buf, 0))                        # pbase
    ex.store_val(st, Ptr(obj, sb + 40), PTR(I8), Ptr(buf, n))                        # pptr
    ex.store_val(st, Ptr(obj, sb + 48), PTR(I8), Ptr(buf, n))                        # epptr


def ios_of(ex, st, sp):
    """locate the basic_ios sub-object of a stream pointer through its (fake) vptr; None if no vtable planted"""
    from llsym import Ptr
    try:
        vp = ex.load_val(st, sp, PTR(I8))
    except Exception:
        return None
    if not hasattr(vp, 'obj') or vp.obj == 0: return None
    off = ex.load_val(st, Ptr(vp.obj, vp.off - 24), I64)
    if not isc(off): return None
    if off >= (1 << 63): off -= 1 << 64
    return Ptr(sp.obj, sp.off + off)


def insert_padded(ex, st, sp, mf, bs):
    """formatted insertion honouring width()/fill/left-right adjust, resetting width to 0 (as __ostream_insert does)"""
    from llsym import Ptr
    ios = ios_of(ex, st, sp)
    w = 0; fill = 32; left = False
    if ios is not None:
        w = ex.load_val(st, Ptr(ios.obj, ios.off + IOS_WIDTH_OFF), I64)
        fl = ex.load_val(st, Ptr(ios.obj, ios.off + IOS_FLAGS_OFF), I32)
        fi = ex.load_val(st, Ptr(ios.obj, ios.off + IOS_FILL_OFF), I8)
        fin = ex.load_val(st, Ptr(ios.obj, ios.off + IOS_FILL_OFF + 1), I8)
        if not isc(w): w = 0
        if isc(fin) and fin and isc(fi): fill = fi
        if isc(fl): left = bool(fl & 0x20)   # ios_base::left = 1<<5
        ex.store_val(st, Ptr(ios.obj, ios.off + IOS_WIDTH_OFF), I64, 0)
    pad = [fill] * max(0, w - len(bs))
    emit(ex, st, mf, (bs + pad) if left else (pad + bs))


def itoa_bytes(v):
    return [ord(c) for c in str(v)]


import re as _re
_FS = _re.compile(r'^_ZNK?St1[34]basic_(fstream|ifstream|ofstream)IcSt11char_traitsIcEE(C[12]|D[012]|4open|5close|7is_open)E(.*)$')

_RX = ('_ZSt15__regex_replaceISt20back_insert_iteratorINSt7__cxx1112basic_stringIcSt11char_traitsIcESaIcEEEEN9__gnu_cxx17__normal_iteratorIPKcS6_EENS1_12regex_traitsIcEEcET_', '_ZNSt7__cxx1111basic_regexIcNS_12regex_traitsIcEEEC', '_ZNSt7__cxx1111basic_regexIcNS_12regex_traitsIcEEED', '_ZNSt8__detail17__regex_algo_impl',
       '_ZNSt7__cxx1111basic_regexIcNS_12regex_traitsIcEEE10_M_compileEPKcS5_')
def is_forced(name):
    return name.startswith(_RX) or name in FORCED or _FS.match(name) is not None or name.startswith('_ZNSt10filesystem7__cxx114pathC') or name.startswith('_ZNSt10filesystem7__cxx114pathD') \
        or name == '_ZN3Opm5EclIO11isFormattedERKNSt7__cxx1112basic_stringIcSt11char_traitsIcESaIcEEE'


def fstream_model(ex, st, name, a, x):
    """std::fstream / ifstream / ofstream objects as handles on named memfiles (names registered by the harness with verif_memfile_name)"""
    from llsym import Ptr, Violation, NULL
    m = _FS.match(name); kind, member, rest = m.group(1), m.group(2), m.group(3)
    S = ex.stats['stubs']; S.add('std::%s::%s -> named memfile' % (kind, {'C1': 'ctor', 'C2': 'ctor', 'D0': 'dtor', 'D1': 'dtor', 'D2': 'dtor'}.get(member, member[1:])))
    this = a[0]
    names = getattr(st, 'mfnames', {})
    def do_open(fname_bytes, mode):
        fname = bytes(fname_bytes).decode('latin1')
        if not isc(mode): raise Violation('unsupported', 'symbolic open mode', st)
        fid = names.get(fname)
        st.sbind = dict(st.sbind)
        if fid is None:
            if mode & 16:      # out: create
                fid = 2000 + len(names); st.mfnames = dict(names); st.mfnames[fname] = fid; mf_get(st, fid)
            else:
                fid = 2999; mf = mf_get(st, fid); st.sbind[this.obj] = fid; mf['ios'] = []; plant(ex, st, this, mf, kind); set_state(ex, st, mf, FAILBIT); return
        mf = mf_get(st, fid); st.sbind[this.obj] = fid
        if (mode & 32) or ((mode & 16) and not (mode & 8) and not (mode & 1)): mf['data'] = []      # trunc, or out without in/app
        mf['g'] = 0; mf['p'] = len(mf['data']) if (mode & 3) else 0; mf['state'] = 0; mf['open'] = True
        mf['ios'] = [io for io in mf['ios'] if io[0] != this.obj]
        plant(ex, st, this, mf, kind)
    def name_arg(p, is_string):
        if is_string: return read_string(ex, st, p)
        return cstr(ex, st, p)
    if member in ('C1', 'C2'):
        if rest == 'v':
            st.sbind = dict(st.sbind); st.sbind[this.obj] = 2998; mf = mf_get(st, 2998); mf['ios'] = []; mf['open'] = False; plant(ex, st, this, mf, kind); return 0
        default_mode = {'fstream': 8 | 16, 'ifstream': 8, 'ofstream': 16}[kind]
        is_str = 'basic_string' in rest or 'NSt7__cxx11' in rest
        mode = a[2] if len(a) > 2 else default_mode
        if isc(mode): mode |= {'ifstream': 8, 'ofstream': 16}.get(kind, 0)
        do_open(name_arg(a[1], is_str), mode); return 0
    if member == '4open':
        is_str = 'NSt7__cxx11' in rest
        mode = a[2] if len(a) > 2 else {'fstream': 8 | 16, 'ifstream': 8, 'ofstream': 16}[kind]
        if isc(mode): mode |= {'ifstream': 8, 'ofstream': 16}.get(kind, 0)
        do_open(name_arg(a[1], is_str), mode); return 0
    if member == '5close':
        mf = mf_get(st, fid_of(st, this)); mf['open'] = False; return 0
    if member == '7is_open':
        return bool(mf_get(st, fid_of(st, this)).get('open', False))
    return 0      # destructors


def builtin(ex, st, fr, name, a, x, work):
    from llsym import Ptr, Violation, NULL
    S = ex.stats['stubs']
    if _FS.match(name): return fstream_model(ex, st, name, a, x)
    if name == 'verif_memfile_name':
        st.mfnames = dict(getattr(st, 'mfnames', {})); st.mfnames[bytes(cstr(ex, st, a[1])).decode('latin1')] = a[0]; mf_get(st, a[0]); return 0
    # ---- streams whose constructors / open() were inlined by the compiler: modelled at the basic_ios / basic_filebuf level
    if name == '_ZNSt9basic_iosIcSt11char_traitsIcEE4initEPSt15basic_streambufIcS1_E':
        S.add('std::basic_ios::init -> good state, default formatting')
        ios = a[0]; reg = dict(getattr(st, 'iosreg', {})); reg[ios.obj] = ios.off; st.iosreg = reg
        init_ios(ex, st, ios, 0); return 0
    if name in ('_ZNSt13basic_filebufIcSt11char_traitsIcEEC1Ev', '_ZNSt13basic_filebufIcSt11char_traitsIcEEC2Ev', '_ZNSt13basic_filebufIcSt11char_traitsIcEED1Ev', '_ZNSt13basic_filebufIcSt11char_traitsIcEED2Ev',
                '_ZNSt12__basic_fileIcED1Ev', '_ZNSt6localeC1ERKS_'):
        return 0
    if name in ('_ZNSt13basic_filebufIcSt11char_traitsIcEE4openEPKcSt13_Ios_Openmode', '_ZNSt13basic_filebufIcSt11char_traitsIcEE4openERKNSt7__cxx1112basic_stringIcS1_SaIcEEESt13_Ios_Openmode'):
        S.add('std::basic_filebuf::open -> named memfile (names registered by the harness)')
        this = a[0]; mode = a[2]
        if not isc(mode): raise Violation('unsupported', 'symbolic open mode', st)
        fname = bytes(cstr(ex, st, a[1]) if 'PKc' in name else read_string(ex, st, a[1])).decode('latin1')
        names = getattr(st, 'mfnames', {}); fid = names.get(fname)
        if fid is None:
            if not (mode & 16): return NULL                      # reading a file that does not exist
            fid = 2000 + len(names); st.mfnames = dict(names); st.mfnames[fname] = fid
        mf = mf_get(st, fid); st.sbind = dict(st.sbind); st.sbind[this.obj] = fid
        if (mode & 32) or ((mode & 16) and not (mode & 8) and not (mode & 1)): mf['data'] = []
        mf['g'] = 0; mf['p'] = len(mf['data']) if (mode & 3) else 0; mf['state'] = 0; mf['open'] = True
        ioff = getattr(st, 'iosreg', {}).get(this.obj)
        mf['ios'] = [io for io in mf['ios'] if io[0] != this.obj] + ([(this.obj, ioff)] if ioff is not None else [])
        return this
    if name == '_ZNSt13basic_filebufIcSt11char_traitsIcEE5closeEv':
        mf = mf_get(st, fid_of(st, a[0])); was = mf.get('open', False); mf['open'] = False
        return a[0] if was else NULL
    if name.startswith('_ZNSt10filesystem7__cxx114pathC'):
        S.add('std::filesystem::path(string) -> holds the string only (no component split)')
        src = a[1]
        bs = read_string(ex, st, src) if ('basic_string' in name or 'NSt7__cxx11' in name[30:] or name.endswith(('ERKS1_', 'EOS1_'))) else cstr(ex, st, src)
        make_string(ex, st, a[0], bs)
        ex.store_val(st, Ptr(a[0].obj, a[0].off + 32), I64, 0)
        return 0
    if name.startswith('_ZNSt10filesystem7__cxx114pathD'): return 0
    # std::filesystem::path beyond construction: the path IS its string (member 0); the component list (member at +32) stays empty
    if name in ('_ZNSt10filesystem7__cxx114path5_ListC1Ev', '_ZNSt10filesystem7__cxx114path5_ListC2Ev', '_ZNSt10filesystem7__cxx114path5_ListC1ERKS2_', '_ZNSt10filesystem7__cxx114path5_ListC2ERKS2_',
                '_ZNSt10filesystem7__cxx114path5_ListC1EOS2_'):
        S.add('std::filesystem::path component list -> empty (the path is its string)'); ex.store_val(st, a[0], I64, 0); return 0
    if name in ('_ZNSt10filesystem7__cxx114path5_ListaSERKS2_', '_ZNSt10filesystem7__cxx114path5_ListaSEOS2_'): return a[0]
    if name in ('_ZNKSt10filesystem7__cxx114path5_List13_Impl_deleterclEPNS2_5_ImplE', '_ZNSt10filesystem7__cxx114path14_M_split_cmptsEv'): return 0
    if name == '_ZNKSt10filesystem7__cxx114path18has_root_directoryEv':
        S.add('std::filesystem::path::has_root_directory -> first character is a slash (POSIX)')
        bs = read_string(ex, st, a[0])
        if not bs: return False
        return (bs[0] == 47) if isc(bs[0]) else (bs[0] == z3.BitVecVal(47, 8))
    if name == '_ZNSt10filesystem7__cxx114pathdVERKS1_':
        S.add('std::filesystem::path::operator/= -> string concatenation with one separator; an absolute right-hand side replaces (POSIX)')
        l = read_string(ex, st, a[0]); r = read_string(ex, st, a[1])
        if not l: out = list(r)
        elif r and not isc(r[0]): raise Violation('unsupported', 'path /= with a symbolic first character', st)
        elif r and r[0] == 47: out = list(r)
        else:
            out = list(l)
            if out and not (isc(out[-1]) and out[-1] == 47): out.append(47)
            out += r
        make_string(ex, st, a[0], out); return a[0]
    if name in ('_ZNSt10filesystem9canonicalERKNS_7__cxx114pathE', '_ZNSt10filesystem8absoluteERKNS_7__cxx114pathE'):
        S.add('std::filesystem::canonical/absolute -> the path itself if it names a registered memfile, else filesystem_error (no other files exist)')
        bs = read_string(ex, st, a[1])
        known = getattr(st, 'mfnames', {})
        if all(isc(b) for b in bs) and bytes(bs).decode('latin1') in known and 'absolute' not in name:
            make_string(ex, st, a[0], bs); ex.store_val(st, Ptr(a[0].obj, a[0].off + 32), I64, 0); return 0
        if 'absolute' in name:
            make_string(ex, st, a[0], ([] if (bs and isc(bs[0]) and bs[0] == 47) else [47]) + list(bs)); ex.store_val(st, Ptr(a[0].obj, a[0].off + 32), I64, 0); return 0
        # a symbolic name can only equal a registered name if the solver allows it; the harnesses register none in that case
        if known and not all(isc(b) for b in bs): raise Violation('unsupported', 'canonical() of a symbolic path with registered files', st)
        eobj = Ptr(ex.new_obj(st, 64, 'exception'), 0)
        ex.store_val(st, eobj, PTR(I8), Ptr(ex.exc_vtable(st), 0))
        st.exc = (eobj, '_ZTINSt10filesystem7__cxx1116filesystem_errorE')
        from llsym import Throw
        raise Throw()
    if name in ('_ZNSt10filesystem11resize_fileERKNS_7__cxx114pathEm',):
        S.add('std::filesystem::resize_file -> truncate / zero-extend the named memfile')
        fname = bytes(read_string(ex, st, a[0])).decode('latin1'); n = a[1]
        fid = getattr(st, 'mfnames', {}).get(fname)
        if fid is None: raise Violation('unsupported', 'resize_file of an unknown file ' + fname, st)
        mf = mf_get(st, fid)
        if not isc(n):
            # symbolic new size: one path per feasible size (the write position is one of a few header offsets)
            vals = ex.feasible_values(st, n, 64)
            def dotrunc(state, k):
                m2 = mf_get(state, fid); del m2['data'][k:]
                while len(m2['data']) < k: m2['data'].append(0)
                m2['p'] = min(m2['p'], k)
            for k in vals[:-1]: ex.fork_ret(st, x, n == z3.BitVecVal(k, 64), 0, work, post=lambda o, kk=k: dotrunc(o, kk))
            ex.assume(st, n == z3.BitVecVal(vals[-1], 64)); dotrunc(st, vals[-1]); return 0
        del mf['data'][n:]
        while len(mf['data']) < n: mf['data'].append(0)
        mf['p'] = min(mf['p'], n); return 0
    if name == '_ZN3Opm5EclIO11isFormattedERKNSt7__cxx1112basic_stringIcSt11char_traitsIcESaIcEEE':
        S.add('Opm::EclIO::isFormatted -> decided from the extension of the (concrete) file name')
        fname = bytes(read_string(ex, st, a[0])).decode('latin1'); ext = fname[fname.rfind('.'):] if '.' in fname else ''
        return bool(ext != '.GRID' and len(ext) > 1 and ext[1] in 'ABCFGH')
    # ---------------- harness-side constructors / accessors
    if name == 'verif_memfile':        # n symbolic bytes, returns a dummy std::fstream bound to a fresh file
        n = a[0]; fid = len([k for k in st.mfs if k < 900]) + 1
        mf = mf_get(st, fid); mf['data'] = [z3.BitVec('file_%d_%d' % (fid, i) if fid > 1 else 'file_%d' % i, 8) for i in range(n)]
        st.inputs.extend(mf['data'])
        return new_stream(ex, st, fid, 'fstream')
    if name == 'verif_memfile_new':    # empty file; returns dummy fstream
        fid = 901 + len([k for k in st.mfs if 900 <= k < 1000]); mf_get(st, fid)
        return new_stream(ex, st, fid, 'fstream')
    if name == 'verif_stream_bind':    # (void* streamobj, long fid): bind an existing object (e.g. a member std::ofstream) to file fid, plant vtables
        p = a[0]; fid = a[1]; kind = a[2] if len(a) > 2 else 0
        mf = mf_get(st, fid)
        if not hasattr(st, 'sbind'): st.sbind = {}
        st.sbind = dict(st.sbind); st.sbind[p.obj] = fid
        plant(ex, st, p, mf, {0: 'ofstream', 1: 'ifstream', 2: 'fstream'}.get(kind, 'ofstream'))
        return 0
    if name == 'verif_memfile_size':
        return len(mf_get(st, a[0])['data'])
    if name == 'verif_memfile_byte':
        mf = mf_get(st, a[0]); i = a[1]
        if not isc(i): raise Violation('unsupported', 'symbolic memfile index', st)
        if i >= len(mf['data']): raise Violation('memory', 'harness reads memfile byte %d beyond size %d' % (i, len(mf['data'])), st)
        return mf['data'][i]
    if name == 'verif_memfile_setbyte':
        mf = mf_get(st, a[0]); i = a[1]
        while len(mf['data']) <= i: mf['data'].append(0)
        mf['data'][i] = a[2]; return 0
    if name == 'verif_memfile_truncate':
        mf = mf_get(st, a[0]); n = a[1]
        if not isc(n): raise Violation('unsupported', 'symbolic truncate length', st)
        del mf['data'][n:]; mf['p'] = min(mf['p'], n); return 0
    if name == 'verif_memfile_rewind':
        mf = mf_get(st, a[0]); mf['g'] = 0; mf['p'] = len(mf['data']); clear_state(ex, st, mf); return 0
    if name == 'verif_memfile_failed':
        return 1 if mf_get(st, a[0] if a else 1)['state'] & (FAILBIT | BADBIT) else 0
    if name == 'verif_memfile_gpos':
        return mf_get(st, a[0])['g']

    # ---------------- std::istream
    if name == '_ZNSi4readEPcl':
        S.add('std::istream::read -> memfile'); mf = mf_get(st, fid_of(st, a[0])); n = a[2]; buf = a[1]
        if not isc(n):
            # length taken from untrusted data: one path per length shorter than what is left in the file, one for 'at least the rest', one for negative
            rem = max(0, len(mf['data']) - mf['g'])
            if mf['state'] & (FAILBIT | BADBIT | EOFBIT): mf['gcount'] = 0; set_state(ex, st, mf, FAILBIT); return a[0]
            cases = [(n == z3.BitVecVal(k, 64), k) for k in range(rem)] + [(z3.And(n >= z3.BitVecVal(rem, 64)), rem + 1), (n < 0, -1)]
            feas = [(cnd, k) for cnd, k in cases if ex.sat(st, cnd) is not None]
            if not feas: return 'infeasible'
            def doread(state, k):
                m2 = mf_get(state, fid_of(state, a[0]))
                if k < 0: set_state(ex, state, m2, FAILBIT); m2['gcount'] = 0; return
                avail = min(k, rem)
                if avail:
                    ex.check_access(state, buf, avail, 'istream::read destination')
                    for i in range(avail): ex.store_val(state, Ptr(buf.obj, buf.off + i), I8, m2['data'][m2['g'] + i])
                m2['g'] += avail; m2['gcount'] = avail
                if k > rem: set_state(ex, state, m2, EOFBIT | FAILBIT)
            for cnd, k in feas[:-1]:
                ex.fork_ret(st, x, cnd, a[0], work, post=lambda o, kk=k: doread(o, kk))
            cnd, k = feas[-1]; ex.assume(st, cnd); doread(st, k); return a[0]
        if n >= (1 << 63): n = 0
        if mf['state'] & (FAILBIT | BADBIT | EOFBIT): mf['gcount'] = 0; set_state(ex, st, mf, FAILBIT); return a[0]
        avail = max(0, min(n, len(mf['data']) - mf['g']))
        if avail:
            ex.check_access(st, buf, avail, 'istream::read destination')
            for i in range(avail): ex.store_val(st, Ptr(buf.obj, buf.off + i), I8, mf['data'][mf['g'] + i])
        mf['g'] += avail; mf['gcount'] = avail
        if avail < n: set_state(ex, st, mf, EOFBIT | FAILBIT)
        return a[0]
    if name in ('_ZNSi5seekgElSt12_Ios_Seekdir', '_ZNSi5seekgESt4fposI11__mbstate_tE'):
        S.add('std::istream::seekg -> memfile'); mf = mf_get(st, fid_of(st, a[0]))
        clear_state(ex, st, mf, EOFBIT)
        if mf['state'] & (FAILBIT | BADBIT): return a[0]
        off = a[1]
        mf.pop('gbeyond', None)
        if not isc(off):
            # symbolic target (an untrusted size taken from the file): negative -> fail; inside the file -> one path per position;
            # beyond the end -> legal for a filebuf, reads hit eof, tellg reports the requested position
            S.add('seekg with a symbolic offset: one path per in-file position, one for "beyond the end", one for "negative"')
            base = {0: 0, 1: mf['g'], 2: len(mf['data'])}[a[2]] if name.endswith('Seekdir') else 0
            tgt = off + z3.BitVecVal(base, 64); size = len(mf['data'])
            feas = [(cnd, k) for cnd, k in [(tgt > z3.BitVecVal(size, 64), size + 1), (tgt < 0, -1)] if ex.sat(st, cnd) is not None]
            block = [tgt >= 0, tgt <= z3.BitVecVal(size, 64)]          # in-file positions: model-guided enumeration (one query per feasible position)
            while True:
                m = ex.sat(st, z3.And(*block))
                if m is None: break
                k = m.eval(tgt, model_completion=True).as_long(); feas.append((tgt == z3.BitVecVal(k, 64), k)); block.append(tgt != z3.BitVecVal(k, 64))
            if not feas: return 'infeasible'
            def doseek(state, k):
                m2 = mf_get(state, fid_of(state, a[0]))
                if k < 0: set_state(ex, state, m2, FAILBIT)
                else:
                    m2['g'] = k
                    if k > size: m2['gbeyond'] = tgt
            for cnd, k in feas[:-1]:
                ex.fork_ret(st, x, cnd, a[0], work, post=lambda o, kk=k: doseek(o, kk))
            cnd, k = feas[-1]; ex.assume(st, cnd); doseek(st, k); return a[0]
        if off >= (1 << 63): off -= 1 << 64
        if name.endswith('Seekdir'):
            way = a[2]
            base = {0: 0, 1: mf['g'], 2: len(mf['data'])}[way]
            off = base + off
        if off < 0: set_state(ex, st, mf, FAILBIT)
        else: mf['g'] = off      # positions beyond the end are legal for a filebuf; subsequent reads hit eof
        return a[0]
    if name == '_ZNSi5tellgEv':
        S.add('std::istream::tellg -> memfile'); mf = mf_get(st, fid_of(st, a[0]))
        pos = ((1 << 64) - 1) if mf['state'] & (FAILBIT | BADBIT) else mf.get('gbeyond', mf['g'])
        return ('agg', [pos, 0])
    if name == '_ZNSi3getEv':
        mf = mf_get(st, fid_of(st, a[0]))
        if mf['g'] < len(mf['data']):
            b = mf['data'][mf['g']]; mf['g'] += 1
            return b if isc(b) else z3.ZeroExt(24, b)
        set_state(ex, st, mf, EOFBIT | FAILBIT); return 0xffffffff
    if name == '_ZNSi4peekEv':
        mf = mf_get(st, fid_of(st, a[0]))
        if mf['g'] < len(mf['data']):
            b = mf['data'][mf['g']]
            return b if isc(b) else z3.ZeroExt(24, b)
        set_state(ex, st, mf, EOFBIT); return 0xffffffff
    if name == '_ZNSi6ignoreEl' or name == '_ZNSi6ignoreEv':
        mf = mf_get(st, fid_of(st, a[0])); n = a[1] if len(a) > 1 else 1
        if not isc(n): raise Violation('unsupported', 'symbolic ignore count', st)
        k = max(0, min(n, len(mf['data']) - mf['g'])); mf['g'] += k
        if k < n: set_state(ex, st, mf, EOFBIT)
        return a[0]

    # ---------------- std::ostream
    if name == '_ZNSo5writeEPKcl':
        S.add('std::ostream::write -> memfile'); mf = mf_get(st, fid_of(st, a[0])); n = a[2]; buf = a[1]
        if not isc(n): raise Violation('unsupported', 'symbolic write length', st)
        if n >= (1 << 63) or n == 0: return a[0]
        ex.check_access(st, buf, n, 'ostream::write source')
        emit(ex, st, mf, [ex.load_val(st, Ptr(buf.obj, buf.off + i), I8) for i in range(n)])
        return a[0]
    if name == '_ZNSo3putEc':
        mf = mf_get(st, fid_of(st, a[0])); emit(ex, st, mf, [a[1]]); return a[0]
    if name == '_ZNSo5flushEv' or name == '_ZSt5flushIcSt11char_traitsIcEERSt13basic_ostreamIT_T0_ES6_': return a[0]
    if name == '_ZSt4endlIcSt11char_traitsIcEERSt13basic_ostreamIT_T0_ES6_':
        S.add('std::endl -> newline'); mf = mf_get(st, fid_of(st, a[0])); emit(ex, st, mf, [10]); return a[0]
    if name in ('_ZNSo5seekpElSt12_Ios_Seekdir', '_ZNSo5seekpESt4fposI11__mbstate_tE'):
        S.add('std::ostream::seekp -> memfile'); mf = mf_get(st, fid_of(st, a[0])); off = a[1]
        if not isc(off): raise Violation('unsupported', 'symbolic seek offset', st)
        if off >= (1 << 63): off -= 1 << 64
        if name.endswith('Seekdir'): off = {0: 0, 1: mf['p'], 2: len(mf['data'])}[a[2]] + off
        if off < 0: set_state(ex, st, mf, FAILBIT)
        else: mf['p'] = off
        return a[0]
    if name == '_ZNSo5tellpEv':
        mf = mf_get(st, fid_of(st, a[0])); return ('agg', [mf['p'], 0])
    if name == '_ZSt16__ostream_insertIcSt11char_traitsIcEERSt13basic_ostreamIT_T0_ES6_PKS3_l':
        S.add('std::__ostream_insert -> memfile (width/fill honoured)'); mf = mf_get(st, fid_of(st, a[0])); n = a[2]
        if not isc(n): raise Violation('unsupported', 'symbolic insert length', st)
        bs = [ex.load_val(st, Ptr(a[1].obj, a[1].off + i), I8) for i in range(n)]
        insert_padded(ex, st, a[0], mf, bs); return a[0]
    if name in ('_ZNSolsEi', '_ZNSolsEl', '_ZNSo9_M_insertIlEERSoT_', '_ZNSo9_M_insertImEERSoT_', '_ZNSolsEj', '_ZNSolsEm', '_ZNSolsEs', '_ZNSolsEt'):
        S.add('std::ostream::operator<<(integer) -> memfile (decimal, width/fill honoured; concrete values only)')
        mf = mf_get(st, fid_of(st, a[0])); v = a[1]
        w = x['args'][1].ty.bits if x['args'][1] is not None else 64
        signed = name in ('_ZNSolsEi', '_ZNSolsEl', '_ZNSo9_M_insertIlEERSoT_', '_ZNSolsEs')
        if not isc(v):
            # symbolic integer: one path per (sign, number of digits) that is feasible; the digits are bit-vector terms
            shapes = []
            zero = z3.BitVecVal(0, w)
            for neg in ((False, True) if signed else (False,)):
                mag = (zero - v) if neg else v
                sgn = (v < 0) if neg else ((v >= 0) if signed else z3.BoolVal(True))
                for nd in range(1, 20 if w > 32 else 11):
                    lo = 10 ** (nd - 1) if nd > 1 else 0; hi = 10 ** nd
                    if lo >= (1 << (w - (1 if signed else 0))) + (1 if neg else 0): break
                    cnd = z3.And(sgn, z3.UGE(mag, z3.BitVecVal(lo, w)), z3.ULT(mag, z3.BitVecVal(hi, w)) if hi < (1 << w) else z3.BoolVal(True))
                    if neg and nd == 1: cnd = z3.And(cnd, mag != 0)
                    if ex.sat(st, cnd) is None: continue
                    digs = [z3.simplify(z3.Extract(7, 0, z3.URem(z3.UDiv(mag, z3.BitVecVal(10 ** k, w)), z3.BitVecVal(10, w))) + 48) for k in reversed(range(nd))]
                    shapes.append((cnd, ([45] if neg else []) + digs))
            if not shapes: return 'infeasible'
            def emit_shape(state, bs): insert_padded(ex, state, a[0], mf_get(state, fid_of(state, a[0])), bs)
            for cnd, bs in shapes[:-1]: ex.fork_ret(st, x, cnd, a[0], work, post=lambda o, b=bs: emit_shape(o, b))
            cnd, bs = shapes[-1]; ex.assume(st, cnd); emit_shape(st, bs); return a[0]
        if signed and v >> (w - 1): v -= 1 << w
        insert_padded(ex, st, a[0], mf, itoa_bytes(v)); return a[0]
    if name in ('_ZNSo9_M_insertIdEERSoT_', '_ZNSolsEd', '_ZNSolsEf'):
        # floating point insertion: exact for a value that is concrete on this path, with the stream's precision and floatfield
        # (default floatfield = printf %.{precision}g); a symbolic value cannot be formatted
        S.add('std::ostream::operator<<(double) -> memfile (concrete values only: %.{precision}g / fixed / scientific as the stream flags say)')
        mf = mf_get(st, fid_of(st, a[0])); v = a[1]
        if not isc(v):
            v = z3.simplify(v)
            if z3.is_rational_value(v): val = float(v.numerator_as_long()) / float(v.denominator_as_long())
            elif z3.is_fp_value(v): val = float(eval(str(v))) if False else None
            elif z3.is_bv_value(v): val = struct.unpack('<d', struct.pack('<Q', v.as_long()))[0]
            else: raise Violation('unsupported', 'operator<<(double) with a symbolic value', st)
            if val is None: raise Violation('unsupported', 'operator<<(double) with a symbolic value', st)
        else: val = struct.unpack('<d', struct.pack('<Q', v))[0]
        ios = ios_of(ex, st, a[0]); prec = 6; flags = 0
        if ios is not None:
            prec = ex.load_val(st, Ptr(ios.obj, ios.off + IOS_PREC_OFF), I64); flags = ex.load_val(st, Ptr(ios.obj, ios.off + IOS_FLAGS_OFF), I32)
            if not (isc(prec) and isc(flags)): raise Violation('unsupported', 'symbolic stream precision/flags', st)
        ff = flags & 0x104          # fixed = 0x4, scientific = 0x100
        if prec == 0 and ff == 0: prec = 1
        txt = ('%.*f' % (prec, val)) if ff == 0x4 else ('%.*e' % (prec, val)) if ff == 0x100 else ('%.*g' % (prec, val))
        if flags & 0x400 and '.' not in txt and ff == 0: txt += '.'      # showpoint (rarely set)
        insert_padded(ex, st, a[0], mf, list(txt.encode())); return a[0]
    if name in ('gmtime', 'gmtime_r', 'timegm'):
        S.add(name + ' on a concrete time -> proleptic Gregorian UTC calendar (Python calendar/time)')
        import calendar as _cal, time as _tm
        if name == 'timegm':
            f = [ex.load_val(st, Ptr(a[0].obj, a[0].off + 4 * k), I32) for k in range(6)]
            if not all(isc(v) for v in f): raise Violation('unsupported', 'timegm of a symbolic date', st)
            f = [v - (1 << 32) if v >> 31 else v for v in f]
            return _cal.timegm((f[5] + 1900, f[4] + 1, f[3], f[2], f[1], f[0], 0, 0, 0)) & ((1 << 64) - 1)
        t = ex.load_val(st, a[0], I64)
        if not isc(t): raise Violation('unsupported', name + ' of a symbolic time', st)
        if t >> 63: t -= 1 << 64
        g = _tm.gmtime(t)
        if name == 'gmtime_r': out = a[1]
        else:
            o = getattr(st, 'tm_obj', None)
            if o is None or o not in st.objs: o = ex.new_obj(st, 56, 'static struct tm', kind='zero'); st.tm_obj = o
            out = Ptr(o, 0)
        vals = [g.tm_sec, g.tm_min, g.tm_hour, g.tm_mday, g.tm_mon - 1, g.tm_year - 1900, (g.tm_wday + 1) % 7, g.tm_yday - 1, 0]
        for k, v in enumerate(vals): ex.store_val(st, Ptr(out.obj, out.off + 4 * k), I32, v & 0xffffffff)
        ex.store_val(st, Ptr(out.obj, out.off + 40), I64, 0); ex.store_val(st, Ptr(out.obj, out.off + 48), PTR(I8), NULL)
        return out
    if name in ('snprintf', 'sprintf', '__snprintf_chk'):
        # concrete format and concrete arguments only: formatted exactly as C does (Python's % operator implements the same conversions)
        S.add('snprintf with concrete arguments -> exact C formatting')
        if name == 'snprintf': buf, size, fmtp, va = a[0], a[1], a[2], list(a[3:])
        elif name == '__snprintf_chk': buf, size, fmtp, va = a[0], a[1], a[4], list(a[5:])
        else: buf, size, fmtp, va = a[0], 1 << 30, a[1], list(a[2:])
        if not isc(size): raise Violation('unsupported', 'snprintf with a symbolic size', st)
        fb = []
        for i in range(4096):
            b = ex.load_val(st, Ptr(fmtp.obj, fmtp.off + i), I8)
            if not isc(b): raise Violation('unsupported', 'snprintf with a symbolic format', st)
            if b == 0: break
            fb.append(b)
        fmt = bytes(fb).decode('latin1'); out = ''; pos = 0
        for m in _re.finditer(r'%([-+ #0]*)(\d+|\*)?(?:\.(\d+|\*))?(hh|h|ll|l|z|j|t|L)?([diuoxXeEfFgGcs%])', fmt):
            out += fmt[pos:m.start()]; pos = m.end()
            conv = m.group(5)
            if conv == '%': out += '%'; continue
            if m.group(2) == '*' or m.group(3) == '*': raise Violation('unsupported', 'snprintf with * width', st)
            v = va.pop(0)
            spec = '%' + m.group(1) + (m.group(2) or '') + ('.' + m.group(3) if m.group(3) is not None else '')
            if conv in 'eEfFgG':
                if isc(v): val = struct.unpack('<d', struct.pack('<Q', v))[0]
                else:
                    v = z3.simplify(v)
                    if z3.is_rational_value(v): val = float(v.numerator_as_long()) / float(v.denominator_as_long())
                    elif z3.is_bv_value(v): val = struct.unpack('<d', struct.pack('<Q', v.as_long()))[0]
                    elif z3.is_fp_value(v): val = struct.unpack('<d', struct.pack('<Q', z3.simplify(z3.fpToIEEEBV(v)).as_long()))[0]
                    else: raise Violation('unsupported', 'snprintf of a symbolic floating point value', st)
                out += (spec + conv) % val
            elif conv in 'diuoxXc':
                if not isc(v): raise Violation('unsupported', 'snprintf of a symbolic integer', st)
                bits = 64 if m.group(4) in ('l', 'll', 'z', 'j', 't') else 32
                v &= (1 << bits) - 1
                if conv in 'di' and v >> (bits - 1): v -= 1 << bits
                out += (spec + ('d' if conv == 'i' else conv)) % v
            else:
                bs = cstr(ex, st, v); out += (spec + 's') % bytes(bs).decode('latin1')
        out += fmt[pos:]
        ob = out.encode('latin1')
        if size > 0:
            w = ob[:size - 1]
            for i, b in enumerate(w): ex.store_val(st, Ptr(buf.obj, buf.off + i), I8, b)
            ex.store_val(st, Ptr(buf.obj, buf.off + len(w)), I8, 0)
        return len(ob) & 0xffffffff
    if name in ('nanosleep', 'usleep', 'sleep', 'sched_yield'):
        S.add('sleep functions -> return at once (time is not modelled)'); return 0
    if name == 'fnmatch':
        S.add('fnmatch(3) on concrete strings -> Python fnmatch.fnmatchcase (flags 0)')
        import fnmatch as _fn
        def _fn_cstr(p):
            out = []
            for i in range(4096):
                b = ex.load_val(st, Ptr(p.obj, p.off + i), I8)
                if not isc(b): raise Violation('unsupported', 'fnmatch on symbolic text', st)
                if b == 0: break
                out.append(b)
            return bytes(out).decode('latin1')
        return 0 if _fn.fnmatchcase(_fn_cstr(a[1]), _fn_cstr(a[0])) else 1
    # ---------------- std::regex on concrete patterns and concrete subject strings: Python's re (ECMAScript subset: classes, groups, quantifiers)
    if name.startswith('_ZNSt7__cxx1111basic_regexIcNS_12regex_traitsIcEEE10_M_compileEPKcS5_'):
        S.add('std::regex(std::string) -> pattern kept as text (see std::regex_match)')
        if a[1].obj != a[2].obj or not (isc(a[1].off) and isc(a[2].off)): raise Violation('unsupported', 'regex pattern range', st)
        pat = [ex.load_val(st, Ptr(a[1].obj, i), I8) for i in range(a[1].off, a[2].off)]
        if not all(isc(b) for b in pat): raise Violation('unsupported', 'std::regex with a symbolic pattern', st)
        po = ex.new_obj(st, len(pat) + 1, 'regex-pattern', kind='zero')
        for i, b in enumerate(pat): st.objs[po].cells[i] = (1, b)
        ex.store_val(st, a[0], PTR(I8), Ptr(po, 0)); return 0
    if name.startswith('_ZNSt7__cxx1111basic_regexIcNS_12regex_traitsIcEEEC'):
        S.add('std::regex(const char*) -> pattern kept as text; std::regex_match/regex_search on concrete strings decided with the same pattern by Python re')
        if 'EPKc' not in name: raise Violation('unsupported', 'std::regex constructor ' + name, st)
        pat = []
        for i in range(4096):
            b = ex.load_val(st, Ptr(a[1].obj, a[1].off + i), I8)
            if not isc(b): raise Violation('unsupported', 'std::regex with a symbolic pattern', st)
            if b == 0: break
            pat.append(b)
        po = ex.new_obj(st, len(pat) + 1, 'regex-pattern', kind='zero')
        for i, b in enumerate(pat): st.objs[po].cells[i] = (1, b)
        for k in range(0, 32, 8): ex.store_val(st, Ptr(a[0].obj, a[0].off + k), I64, 0)
        ex.store_val(st, a[0], PTR(I8), Ptr(po, 0)); return 0
    if name.startswith('_ZNSt7__cxx1111basic_regexIcNS_12regex_traitsIcEEED'): return 0
    if name.startswith('_ZSt15__regex_replace'):
        import re as _pyre
        S.add('std::regex_replace(string, regex, fmt) into a back_inserter -> Python re.sub; on symbolic text only for whitespace-trimming patterns (one path per whitespace pattern of the bytes)')
        out, p0, p1, rx, fmtp, flen = a[0], a[1], a[2], a[3], a[4], a[5]
        if p0.obj != p1.obj or not (isc(p0.off) and isc(p1.off)) or not isc(flen): raise Violation('unsupported', 'regex_replace subject range', st)
        subj = [ex.load_val(st, Ptr(p0.obj, i), I8) for i in range(p0.off, p1.off)]
        fm = [ex.load_val(st, Ptr(fmtp.obj, fmtp.off + i), I8) for i in range(flen)]
        if not all(isc(b) for b in fm) or 36 in fm or 92 in fm: raise Violation('unsupported', 'regex_replace format string', st)
        pp = ex.load_val(st, rx, PTR(I8)); pat = []
        for i in range(4096):
            b = ex.load_val(st, Ptr(pp.obj, pp.off + i), I8)
            if b == 0: break
            pat.append(b)
        pat = bytes(pat).decode('latin1'); fms = bytes(fm).decode('latin1')
        def append(state, bs): make_string(ex, state, out, read_string(ex, state, out) + list(bs))
        if all(isc(b) for b in subj):
            append(st, _pyre.sub(pat, lambda m: fms, bytes(subj).decode('latin1')).encode('latin1')); return out
        if fm or _pyre.sub(r'\\s|[\^$+*|()?]', '', pat): raise Violation('unsupported', 'regex_replace on symbolic text with pattern ' + pat, st)
        def isspace(b): return z3.Or(b == 32, z3.And(z3.UGE(b, 9), z3.ULE(b, 13)))
        sym = [i for i, b in enumerate(subj) if not isc(b)]
        feas = []; block = []
        while True:
            m = ex.sat(st, z3.And(*block) if block else None)
            if m is None: break
            cls = [z3.is_true(m.eval(isspace(subj[i]), model_completion=True)) for i in sym]
            cnd = z3.And(*[isspace(subj[i]) if c else z3.Not(isspace(subj[i])) for i, c in zip(sym, cls)])
            rep = [(b if isc(b) else None) for b in subj]
            for i, c in zip(sym, cls): rep[i] = 32 if c else 120
            gone = set()
            for mm in _pyre.finditer(pat, bytes(rep).decode('latin1')): gone.update(range(mm.start(), mm.end()))
            feas.append((cnd, [b for i, b in enumerate(subj) if i not in gone])); block.append(z3.Not(cnd))
            if len(feas) > 64: raise Violation('unsupported', 'regex_replace: too many whitespace patterns', st)
        if not feas: return 'infeasible'
        for cnd, res in feas[:-1]: ex.fork_ret(st, x, cnd, out, work, post=lambda o, r=res: append(o, r))
        cnd, res = feas[-1]; ex.assume(st, cnd); append(st, res); return out
    if name.startswith('_ZNSt8__detail17__regex_algo_impl'):
        import re as _pyre
        def text_of(p0, p1):
            if p0.obj != p1.obj or not (isc(p0.off) and isc(p1.off)): raise Violation('unsupported', 'regex subject range', st)
            out = []
            for i in range(p0.off, p1.off):
                b = ex.load_val(st, Ptr(p0.obj, i), I8)
                if not isc(b): raise Violation('unsupported', 'regex match on symbolic text', st)
                out.append(b)
            return bytes(out).decode('latin1')
        subj = text_of(a[0], a[1]); rx = a[3]
        pp = ex.load_val(st, rx, PTR(I8)); pat = []
        for i in range(4096):
            b = ex.load_val(st, Ptr(pp.obj, pp.off + i), I8)
            if b == 0: break
            pat.append(b)
        pat = bytes(pat).decode('latin1'); match_mode = a[-1]
        m = _pyre.fullmatch(pat, subj) if (match_mode is True or match_mode == 1) else _pyre.search(pat, subj)
        return bool(m)
    if name in ('_ZNKSt12__basic_fileIcE7is_openEv',):
        S.add('std::basic_filebuf::is_open -> bound memfile is open'); return bool(mf_get(st, fid_of(st, a[0])).get('open', True))
    if name in ('_ZNSt9basic_iosIcSt11char_traitsIcEE5clearESt12_Ios_Iostate',):
        # clear(state): sets the state to the argument (through the basic_ios pointer: find the file by object)
        mf = mf_get(st, fid_of(st, a[0])); v = a[1]
        if not isc(v): raise Violation('unsupported', 'symbolic iostate', st)
        mf['state'] = 0;
        if v: set_state(ex, st, mf, v)
        else: clear_state(ex, st, mf)
        return 0
    if name.startswith('_ZN3fmt') and 'vformat' in name and x['ty'].k == 'void':
        # fmt::vformat(string_view fmt, format_args): plain "{}" placeholders with string / C-string / integer arguments are formatted (keys such as
        # "{}:{}" are semantic); anything else (width/precision specs, floating point) yields an empty message - formatting is never the subject there
        try:
            out = fmt_simple(ex, st, a)
        except Exception:
            out = None
        if out is None: S.add('fmt::vformat -> empty string for non-trivial format specs'); make_string(ex, st, a[0], []); return 0
        S.add('fmt::vformat -> "{}" placeholders with string/integer arguments formatted'); make_string(ex, st, a[0], out); return 0
    if name == '_ZNSt8__detail15_List_node_base7_M_hookEPS0_':
        S.add('std::list node hook/unhook -> doubly linked list surgery as in libstdc++')
        n = a[0]; pos = a[1]; prev = ex.load_val(st, Ptr(pos.obj, pos.off + 8), PTR(I8))
        ex.store_val(st, n, PTR(I8), pos); ex.store_val(st, Ptr(n.obj, n.off + 8), PTR(I8), prev)
        ex.store_val(st, prev, PTR(I8), n); ex.store_val(st, Ptr(pos.obj, pos.off + 8), PTR(I8), n); return 0
    if name == '_ZNSt8__detail15_List_node_base9_M_unhookEv':
        n = a[0]; nxt = ex.load_val(st, n, PTR(I8)); prev = ex.load_val(st, Ptr(n.obj, n.off + 8), PTR(I8))
        ex.store_val(st, prev, PTR(I8), nxt); ex.store_val(st, Ptr(nxt.obj, nxt.off + 8), PTR(I8), prev); return 0
    # ---------------- std::_Rb_tree support (libstdc++.so internals): unbalanced BST with the same header/leftmost/rightmost contract
    if name == '_ZSt29_Rb_tree_insert_and_rebalancebPSt18_Rb_tree_node_baseS0_RS_':
        S.add('std::_Rb_tree_insert_and_rebalance -> BST insert without rebalancing (same lookups and in-order iteration)')
        left = a[0]; xn = a[1]; p = a[2]; h = a[3]
        def fldp(n, k): return Ptr(n.obj, n.off + k)          # color@0 parent@8 left@16 right@24
        def same(u, v): return u.obj == v.obj and u.off == v.off
        def do_insert(state, lft):
            ex.store_val(state, fldp(xn, 8), PTR(I8), p); ex.store_val(state, fldp(xn, 16), PTR(I8), NULL); ex.store_val(state, fldp(xn, 24), PTR(I8), NULL)
            ex.store_val(state, fldp(xn, 0), I32, 1)   # every node black, the header stays red
            if lft:
                ex.store_val(state, fldp(p, 16), PTR(I8), xn)
                if same(p, h): ex.store_val(state, fldp(h, 8), PTR(I8), xn); ex.store_val(state, fldp(h, 24), PTR(I8), xn)
                else:
                    lm = ex.load_val(state, fldp(h, 16), PTR(I8))
                    if same(p, lm): ex.store_val(state, fldp(h, 16), PTR(I8), xn)
            else:
                ex.store_val(state, fldp(p, 24), PTR(I8), xn)
                rm = ex.load_val(state, fldp(h, 24), PTR(I8))
                if same(p, rm): ex.store_val(state, fldp(h, 24), PTR(I8), xn)
        if isinstance(left, bool): do_insert(st, left); return 0
        if isc(left): do_insert(st, bool(left & 1)); return 0
        cnd = ex.tobool(left); ncnd = z3.Not(cnd)
        ma = ex.sat(st, cnd); mb = ex.sat(st, ncnd)
        if ma is not None and mb is not None:
            ex.fork_ret(st, x, ncnd, 0, work, post=lambda o: do_insert(o, False)); ex.assume(st, cnd); do_insert(st, True)
        elif ma is not None: ex.assume(st, cnd); do_insert(st, True)
        elif mb is not None: ex.assume(st, ncnd); do_insert(st, False)
        else: return 'infeasible'
        return 0
    if name in ('_ZSt18_Rb_tree_incrementPSt18_Rb_tree_node_base', '_ZSt18_Rb_tree_incrementPKSt18_Rb_tree_node_base',
                '_ZSt18_Rb_tree_decrementPSt18_Rb_tree_node_base', '_ZSt18_Rb_tree_decrementPKSt18_Rb_tree_node_base'):
        S.add('std::_Rb_tree_increment/decrement -> in-order successor/predecessor')
        inc = 'increment' in name
        def fld(n, k): return ex.load_val(st, Ptr(n.obj, n.off + k), PTR(I8))
        def same(u, v): return u.obj == v.obj and u.off == v.off
        x0 = a[0]
        if inc:
            r = fld(x0, 24)
            if r.obj != 0:
                x0 = r
                while fld(x0, 16).obj != 0: x0 = fld(x0, 16)
                return x0
            y = fld(x0, 8)
            while same(x0, fld(y, 24)): x0 = y; y = fld(y, 8)
            return y if not same(fld(x0, 24), y) else x0
        col = ex.load_val(st, Ptr(x0.obj, x0.off), I32)
        if col == 0 and same(fld(fld(x0, 8), 8), x0): return fld(x0, 24)      # header (the only red node of the model) -> rightmost
        l = fld(x0, 16)
        if l.obj != 0:
            y = l
            while fld(y, 24).obj != 0: y = fld(y, 24)
            return y
        y = fld(x0, 8)
        while same(x0, fld(y, 16)): x0 = y; y = fld(y, 8)
        return y
    if name == '_ZSt28_Rb_tree_rebalance_for_erasePSt18_Rb_tree_node_baseRS_':
        raise Violation('unsupported', 'rb-tree erase (not modelled)', st)
    # ---------------- std::unordered_* rehash policy (libstdc++.so): grow when the element count would exceed the bucket count
    if name == '_ZNKSt8__detail20_Prime_rehash_policy14_M_need_rehashEmmm':
        S.add('std::__detail::_Prime_rehash_policy::_M_need_rehash -> grow to max(2*buckets+1, elements, 13) when elements > buckets')
        nb, ne, ni = a[1], a[2], a[3]
        if not (isc(nb) and isc(ne) and isc(ni)): raise Violation('unsupported', 'symbolic hash table size', st)
        if ne + ni > nb: return ('agg', [True, max(2 * nb + 1, ne + ni, 13)])
        return ('agg', [False, 0])
    if name == '_ZNKSt8__detail20_Prime_rehash_policy11_M_next_bktEm':
        n = a[1]
        if not isc(n): raise Violation('unsupported', 'symbolic bucket count', st)
        return max(n, 13)
    if name == '_ZSt11_Hash_bytesPKvmm':
        S.add('std::_Hash_bytes -> FNV-1a over concrete bytes')
        n = a[1]
        if not isc(n): raise Violation('unsupported', 'symbolic hash length', st)
        h = 0xcbf29ce484222325
        for i in range(n):
            b = ex.load_val(st, Ptr(a[0].obj, a[0].off + i), I8)
            if not isc(b): raise Violation('unsupported', 'hash of symbolic bytes', st)
            h = ((h ^ b) * 0x100000001b3) & ((1 << 64) - 1)
        return h
    if name.startswith('_ZN3Opm13OpmInputError') and ('formatSingle' in name or 'formatException' in name or 'format' in name) and x['ty'].k == 'void':
        S.add('OpmInputError::format* -> empty message'); make_string(ex, st, a[0], []); return 0
    # ---------------- strtol / strtoll / strtoul: exact on the C string (symbolic bytes fork per shape: blanks, sign, digit count)
    if name in ('strtol', 'strtoll', 'strtoul', 'strtoull', '__isoc23_strtol', '__isoc23_strtoll', '__isoc23_strtoul'):
        S.add('strtol: exact decimal model, forks on the shape of symbolic bytes (blanks/sign/digit count)')
        p = a[0]; base = a[2]
        if not isc(base) or base not in (10, 0): raise Violation('unsupported', 'strtol base', st)
        # candidate terminator positions: a symbolic byte that may be NUL ends the string on one family of shapes
        allb = []; cands = []; nonzero = []
        for k in range(40):
            if nonzero and isc(p.off) and p.obj in st.objs and isc(st.objs[p.obj].size) and p.off + k >= st.objs[p.obj].size:
                m = ex.sat(st, z3.And(*nonzero))
                if m is None: break                      # some earlier byte is the terminator on every path
                raise Violation('memory', 'strtol reads past the end of an unterminated string', st, m)
            b = ex.load_val(st, Ptr(p.obj, p.off + k), I8)
            if isc(b):
                if b == 0: cands.append((k, list(nonzero))); break
                allb.append(b); continue
            cands.append((k, nonzero + [b == 0])); nonzero = nonzero + [b != 0]; allb.append(b)
        else: raise Violation('bound', 'strtol argument longer than 39 bytes', st)
        def B(v): return z3.BitVecVal(v, 8) if isc(v) else v
        def isspace(b): return (b in (32, 9, 10, 11, 12, 13)) if isc(b) else z3.Or(b == 32, z3.And(z3.UGE(b, 9), z3.ULE(b, 13)))
        def isdigit(b): return (48 <= b <= 57) if isc(b) else z3.And(z3.UGE(b, 48), z3.ULE(b, 57))
        def AND(cs):
            cs = [c for c in cs if c is not True]
            if any(c is False for c in cs): return False
            return True if not cs else (cs[0] if len(cs) == 1 else z3.And(*cs))
        def NOT_(c): return (not c) if isinstance(c, bool) else z3.Not(c)
        shapes = []
        for L, lenconds in cands:
          c_len = AND(lenconds) if lenconds else True
          if c_len is not True and ex.sat(st, c_len) is None: continue
          bs = allb[:L] + [0]
          for ns in range(L + 1):
            c_ns = AND([isspace(bs[k]) for k in range(ns)] + [NOT_(isspace(bs[ns]))])
            if c_ns is False: continue
            for sign in (0, 1, 2):      # none, '+', '-'
                sb = bs[ns]
                if sign == 0: c_s = AND([NOT_((sb == 43) if isc(sb) else sb == 43), NOT_((sb == 45) if isc(sb) else sb == 45)]); ds = ns
                else:
                    ch = 43 if sign == 1 else 45
                    c_s = (sb == ch); ds = ns + 1
                if c_s is False: continue
                for nd in range(0, L - ds + 1 + 0):
                    if ds + nd > L: break
                    c_d = AND([isdigit(bs[k]) for k in range(ds, ds + nd)] + [NOT_(isdigit(bs[ds + nd]))])
                    if c_d is False: continue
                    cond = AND([c_len, c_ns, c_s, c_d])
                    if cond is False: continue
                    if nd > 18: raise Violation('unsupported', 'strtol with more than 18 digits', st)
                    val = 0
                    for k in range(ds, ds + nd):
                        d = bs[k]
                        val = (val * 10 + (d - 48)) if isc(val) and isc(d) else (ex.bv(val, 64) * 10 + (z3.ZeroExt(56, B(d)) - 48))
                    if sign == 2: val = ((-val) & ((1 << 64) - 1)) if isc(val) else -val
                    if not isc(val): val = z3.simplify(val)
                    endoff = (ds + nd) if nd > 0 else 0
                    shapes.append((cond, val, endoff))
        feas = []
        for cond, val, endoff in shapes:
            if cond is True: feas = [(True, val, endoff)]; break
            m = ex.sat(st, cond)
            if m is not None: feas.append((cond, val, endoff))
        if not feas: return 'infeasible'
        def setend(state, endoff):
            if a[1].obj != 0: ex.store_val(state, a[1], PTR(I8), Ptr(p.obj, p.off + endoff))
        for cond, val, endoff in feas[:-1]:
            ex.fork_ret(st, x, cond, val, work, post=lambda o, e=endoff: setend(o, e))
        cond, val, endoff = feas[-1]
        if cond is not True: ex.assume(st, cond)
        setend(st, endoff)
        return val
    # ---------------- std::ostringstream (bound to a private memfile)
    if name in ('_ZNSt7__cxx1119basic_ostringstreamIcSt11char_traitsIcESaIcEEC1Ev', '_ZNSt7__cxx1119basic_ostringstreamIcSt11char_traitsIcESaIcEEC1ESt13_Ios_Openmode'):
        S.add('std::ostringstream -> memfile'); p = a[0]; fid = 1000 + len([k for k in st.mfs if k >= 1000]); mf = mf_get(st, fid)
        st.sbind = dict(st.sbind); st.sbind[p.obj] = fid
        plant(ex, st, p, mf, 'ostringstream'); mf['sbuf'] = (p.obj, p.off)
        for k in range(8, 64, 8): ex.store_val(st, Ptr(p.obj, p.off + 8 + k), PTR(I8), NULL)
        ex.store_val(st, Ptr(p.obj, p.off + 8 + 72), PTR(I8), Ptr(p.obj, p.off + 8 + 72 + 16)); ex.store_val(st, Ptr(p.obj, p.off + 8 + 80), I64, 0); ex.store_val(st, Ptr(p.obj, p.off + 8 + 88), I8, 0)
        return 0
    if name in ('_ZNSt7__cxx1119basic_ostringstreamIcSt11char_traitsIcESaIcEED1Ev', '_ZNSt7__cxx1119basic_ostringstreamIcSt11char_traitsIcESaIcEED2Ev'):
        st.sbind = {k: v for k, v in st.sbind.items() if k != a[0].obj}; return 0
    if name == '_ZNKSt7__cxx1119basic_ostringstreamIcSt11char_traitsIcESaIcEE3strEv':
        mf = mf_get(st, fid_of(st, a[1])); make_string(ex, st, a[0], mf['data']); return 0
    if name in ('_ZNSt6localeD1Ev', '_ZNSt6localeC1Ev', '_ZNSt8ios_baseD2Ev', '_ZNSt8ios_baseC2Ev', '_ZNSt8ios_base4InitC1Ev', '_ZNSt8ios_base4InitD1Ev',
                '_ZNSt9basic_iosIcSt11char_traitsIcEE4initEPSt15basic_streambufIcS1_E'):
        S.add(name + ' -> no-op'); return 0
    if name == '_ZNSt7__cxx1119basic_istringstreamIcSt11char_traitsIcESaIcEEC1ERKNS_12basic_stringIcS2_S3_EESt13_Ios_Openmode':
        S.add('std::istringstream(string) -> memfile'); p = a[0]; fid = 1000 + len([k for k in st.mfs if k >= 1000]); mf = mf_get(st, fid)
        mf['data'] = read_string(ex, st, a[1])
        st.sbind = dict(st.sbind); st.sbind[p.obj] = fid
        plant(ex, st, p, mf, 'istringstream')
        for k in range(8, 64, 8): ex.store_val(st, Ptr(p.obj, p.off + 16 + k), PTR(I8), NULL)
        ex.store_val(st, Ptr(p.obj, p.off + 88), PTR(I8), Ptr(p.obj, p.off + 104)); ex.store_val(st, Ptr(p.obj, p.off + 96), I64, 0); ex.store_val(st, Ptr(p.obj, p.off + 104), I8, 0)
        return 0
    if name in ('_ZNSt7__cxx1119basic_istringstreamIcSt11char_traitsIcESaIcEED1Ev', '_ZNSt7__cxx1119basic_istringstreamIcSt11char_traitsIcESaIcEED2Ev'):
        st.sbind = {k: v for k, v in st.sbind.items() if k != a[0].obj}; return 0
    if name in ('_ZSt7getlineIcSt11char_traitsIcESaIcEERSt13basic_istreamIT_T0_ES7_RNSt7__cxx1112basic_stringIS4_S5_T1_EES4_',
                '_ZSt7getlineIcSt11char_traitsIcESaIcEERSt13basic_istreamIT_T0_ES7_RNSt7__cxx1112basic_stringIS4_S5_T1_EE'):
        S.add('std::getline(istream, string[, delim]) -> memfile (a symbolic byte that may be the delimiter forks the path)')
        mf = mf_get(st, fid_of(st, a[0])); delim = a[2] if len(a) > 2 else 10
        if not isc(delim): raise Violation('unsupported', 'symbolic getline delimiter', st)
        if mf['state'] & (FAILBIT | BADBIT): make_string(ex, st, a[1], []); return a[0]
        out = []; g = mf['g']; d = mf['data']; found = False
        while g < len(d):
            b = d[g]; g += 1
            if not isc(b):
                # symbolic byte: if it can be the delimiter, one successor path ends the line here
                isd = b == z3.BitVecVal(delim & 0xff, 8)
                if ex.sat(st, isd) is not None:
                    if ex.sat(st, z3.Not(isd)) is None: found = True; break
                    def endline(state, gg=g, oo=list(out)):
                        m2 = mf_get(state, fid_of(state, a[0])); m2['g'] = gg; make_string(ex, state, a[1], oo)
                    ex.fork_ret(st, x, isd, a[0], work, post=endline)
                    ex.assume(st, z3.Not(isd))
                out.append(b); continue
            if b == (delim & 0xff): found = True; break
            out.append(b)
        got = g - mf['g']; mf['g'] = g
        make_string(ex, st, a[1], out)
        if not found:
            set_state(ex, st, mf, EOFBIT | (FAILBIT if got == 0 else 0))
        return a[0]
    return NOT


def fmt_simple(ex, st, a):
    from llsym import Ptr
    fptr, flen, desc, vals = a[1], a[2], a[3], a[4]
    if not (isc(flen) and isc(desc)): return None
    f = [ex.load_val(st, Ptr(fptr.obj, fptr.off + i), I8) for i in range(flen)]
    if not all(isc(b) for b in f): return None
    f = bytes(f); out = []; i = 0; argi = 0
    if desc >> 63: return None                     # unpacked argument list (more than 15 arguments)
    while i < len(f):
        ch = f[i:i + 1]
        if ch == b'{':
            if f[i:i + 2] == b'{{': out.append(123); i += 2; continue
            if f[i:i + 2] != b'{}': return None
            ty = (desc >> (4 * argi)) & 0xf; v = Ptr(vals.obj, vals.off + 16 * argi); argi += 1; i += 2
            if ty in (1, 2, 3, 4):                 # int, uint, long long, unsigned long long
                w = 32 if ty in (1, 2) else 64; n = ex.load_val(st, v, I32 if w == 32 else I64)
                if not isc(n): return None
                if ty in (1, 3) and n >> (w - 1): n -= 1 << w
                out += [ord(c) for c in str(n)]
            elif ty == 12:                         # const char*
                p = ex.load_val(st, v, PTR(I8)); out += cstr(ex, st, p)
            elif ty == 13:                         # string_view {data, size}
                p = ex.load_val(st, v, PTR(I8)); n = ex.load_val(st, Ptr(v.obj, v.off + 8), I64)
                if not isc(n): return None
                out += [ex.load_val(st, Ptr(p.obj, p.off + k), I8) for k in range(n)]
            else: return None
        elif ch == b'}':
            if f[i:i + 2] == b'}}': out.append(125); i += 2; continue
            return None
        else: out.append(f[i]); i += 1
    return out


def make_string(ex, st, p, bs):
    """construct a libstdc++ std::string at p holding the bytes bs"""
    from llsym import Ptr
    n = len(bs)
    if n <= 15:
        buf = Ptr(p.obj, p.off + 16)
    else:
        buf = Ptr(ex.new_obj(st, n + 1, 'heap@std::string'), 0)
        ex.store_val(st, Ptr(p.obj, p.off + 16), I64, n)
    ex.store_val(st, p, PTR(I8), buf); ex.store_val(st, Ptr(p.obj, p.off + 8), I64, n)
    for i, b in enumerate(bs): ex.store_val(st, Ptr(buf.obj, buf.off + i), I8, b)
    ex.store_val(st, Ptr(buf.obj, buf.off + n), I8, 0)


def read_string(ex, st, p):
    """bytes of a libstdc++ std::string at p"""
    from llsym import Ptr, Violation
    buf = ex.load_val(st, p, PTR(I8)); n = ex.load_val(st, Ptr(p.obj, p.off + 8), I64)
    if not isc(n): raise Violation('unsupported', 'std::string of symbolic length', st)
    return [ex.load_val(st, Ptr(buf.obj, buf.off + i), I8) for i in range(n)]


def init_ios(ex, st, ios, state):
    """initialise a basic_ios sub-object: state bits, width, precision, flags, fill and a fake ctype facet"""
    from llsym import Ptr
    ex.store_val(st, Ptr(ios.obj, ios.off + IOS_STATE_OFF), I32, state)
    ex.store_val(st, Ptr(ios.obj, ios.off + IOS_WIDTH_OFF), I64, 0)
    ex.store_val(st, Ptr(ios.obj, ios.off + IOS_PREC_OFF), I64, 6)
    ex.store_val(st, Ptr(ios.obj, ios.off + IOS_FLAGS_OFF), I32, 0x1002)
    ct = getattr(st, 'fake_ctype', None)
    if ct is None or ct not in st.objs:
        ct = ex.new_obj(st, 576, 'fake std::ctype<char>', kind='zero'); st.fake_ctype = ct
        o = st.objs[ct]; o.cells[56] = (1, 1); o.cells[569] = (1, 1)
        for ch in range(256): o.cells[57 + ch] = (1, ch); o.cells[313 + ch] = (1, ch)
    ex.store_val(st, Ptr(ios.obj, ios.off + 240), PTR(I8), Ptr(ct, 0))
    ex.store_val(st, Ptr(ios.obj, ios.off + IOS_FILL_OFF), I8, 32)
    ex.store_val(st, Ptr(ios.obj, ios.off + IOS_FILL_OFF + 1), I8, 1)


def plant(ex, st, p, mf, kind):
    """plant fake vtable pointer(s) so that inlined basic_ios accessors find the ios sub-object"""
    from llsym import Ptr
    layout = {'ofstream': (248, [(0, 248)]), 'ifstream': (256, [(0, 256)]), 'fstream': (264, [(0, 264), (16, 248)]), 'ostringstream': (112, [(0, 112)]), 'istringstream': (120, [(0, 120)])}[kind]
    iosoff, vptrs = layout
    vt = ex.new_obj(st, 64 * len(vptrs), 'fake-vtable', kind='zero')
    for k, (at, vboff) in enumerate(vptrs):
        ex.store_val(st, Ptr(vt, 64 * k + 0), I64, vboff)          # vbase offset at address point - 24
        ex.store_val(st, Ptr(p.obj, p.off + at), PTR(I8), Ptr(vt, 64 * k + 24))
    mf['ios'] = list(mf['ios']) + [(p.obj, p.off + iosoff)]
    reg = dict(getattr(st, 'iosreg', {})); reg[p.obj] = p.off + iosoff; st.iosreg = reg
    ex.store_val(st, Ptr(p.obj, p.off + iosoff + IOS_STATE_OFF), I32, mf['state'])
    ex.store_val(st, Ptr(p.obj, p.off + iosoff + IOS_WIDTH_OFF), I64, 0)
    ex.store_val(st, Ptr(p.obj, p.off + iosoff + IOS_PREC_OFF), I64, 6)
    ex.store_val(st, Ptr(p.obj, p.off + iosoff + IOS_FLAGS_OFF), I32, 0x1002)   # skipws | dec
    # basic_ios::_M_ctype: a fake std::ctype<char> facet with identity widen/narrow tables (std::endl and widen() are inlined)
    ct = getattr(st, 'fake_ctype', None)
    if ct is None or ct not in st.objs:
        ct = ex.new_obj(st, 576, 'fake std::ctype<char>', kind='zero'); st.fake_ctype = ct
        o = st.objs[ct]; o.cells[56] = (1, 1); o.cells[569] = (1, 1)
        for ch in range(256): o.cells[57 + ch] = (1, ch); o.cells[313 + ch] = (1, ch)
    ex.store_val(st, Ptr(p.obj, p.off + iosoff + 240), PTR(I8), Ptr(ct, 0))
    ex.store_val(st, Ptr(p.obj, p.off + iosoff + IOS_FILL_OFF), I8, 32)
    ex.store_val(st, Ptr(p.obj, p.off + iosoff + IOS_FILL_OFF + 1), I8, 1)       # _M_fill_init


def new_stream(ex, st, fid, kind):
    from llsym import Ptr
    oid = ex.new_obj(st, 1024, 'std::' + kind + ' (memfile %d)' % fid, kind='zero')
    if not hasattr(st, 'sbind'): st.sbind = {}
    st.sbind = dict(st.sbind); st.sbind[oid] = fid
    plant(ex, st, Ptr(oid, 0), mf_get(st, fid), kind)
    return Ptr(oid, 0)
