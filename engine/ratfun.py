"""Rational-function normal form for z3 Real terms: decides equalities  a == b  that are identities of rational functions
(after clearing denominators both sides expand to the same polynomial).  Used by llsym as a fast path before nlsat; the divisors met on the
way are returned so that the caller can discharge  'path condition => divisor != 0'  with the solver (otherwise the fast path is not used).
Sub-terms that are not +,-,*,/ or numerals (uninterpreted libm applications, ite, to_real, ...) are opaque atoms."""
from fractions import Fraction
import z3

LIMIT = 60000           # monomials

class TooBig(Exception): pass

def p_const(c): return {(): Fraction(c)} if c != 0 else {}
def p_var(k): return {((k, 1),): Fraction(1)}
def p_add(a, b, sign=1):
    r = dict(a)
    for m, c in b.items():
        v = r.get(m, 0) + sign * c
        if v == 0: r.pop(m, None)
        else: r[m] = v
    return r
def m_mul(m1, m2):
    d = dict(m1)
    for k, e in m2: d[k] = d.get(k, 0) + e
    return tuple(sorted(d.items()))
def p_mul(a, b):
    if len(a) * len(b) > LIMIT * 20: raise TooBig()
    r = {}
    for m1, c1 in a.items():
        for m2, c2 in b.items():
            m = m_mul(m1, m2); v = r.get(m, 0) + c1 * c2
            if v == 0: r.pop(m, None)
            else: r[m] = v
    if len(r) > LIMIT: raise TooBig()
    return r
def p_is_const(a): return all(m == () for m in a)

class Conv:
    def __init__(s): s.atoms = {}; s.atom_terms = []; s.divisors = []; s.memo = {}
    def atom(s, t):
        k = t.get_id()
        if k not in s.atoms: s.atoms[k] = len(s.atom_terms); s.atom_terms.append(t)      # the term is kept alive in atom_terms (ids are reused after GC)
        return s.atoms[k]
    def conv(s, t):
        k = t.get_id()
        r = s.memo.get(k)
        if r is not None: return r[1]
        r = s.conv1(t); s.memo[k] = (t, r); return r
    def conv1(s, t):
        if z3.is_rational_value(t): return (p_const(Fraction(t.numerator_as_long(), t.denominator_as_long())), p_const(1))
        if z3.is_int_value(t): return (p_const(t.as_long()), p_const(1))
        if z3.is_app(t):
            k = t.decl().kind(); ch = t.children()
            if k == z3.Z3_OP_ADD or k == z3.Z3_OP_SUB:
                n, d = s.conv(ch[0])
                for i, c in enumerate(ch[1:]):
                    n2, d2 = s.conv(c)
                    if d == d2: n = p_add(n, n2, 1 if k == z3.Z3_OP_ADD else -1)
                    else: n = p_add(p_mul(n, d2), p_mul(n2, d), 1 if k == z3.Z3_OP_ADD else -1); d = p_mul(d, d2)
                return (n, d)
            if k == z3.Z3_OP_UMINUS:
                n, d = s.conv(ch[0]); return ({m: -c for m, c in n.items()}, d)
            if k == z3.Z3_OP_MUL:
                n, d = s.conv(ch[0])
                for c in ch[1:]:
                    n2, d2 = s.conv(c); n = p_mul(n, n2); d = p_mul(d, d2)
                return (n, d)
            if k == z3.Z3_OP_DIV:
                n, d = s.conv(ch[0]); n2, d2 = s.conv(ch[1])
                if not (p_is_const(n2) and n2 and p_is_const(d2)): s.divisors.append(ch[1])
                elif not n2: raise TooBig()          # literal division by zero: leave to the solver
                return (p_mul(n, d2), p_mul(d, n2))
            if k == z3.Z3_OP_TO_REAL and z3.is_int_value(ch[0]): return (p_const(ch[0].as_long()), p_const(1))
        return (p_var(s.atom(t)), p_const(1))

def identity(a, b):
    """returns (True, [divisor terms]) if a == b is an identity of rational functions, (False, None) otherwise / when too big"""
    c = Conv()
    try:
        na, da = c.conv(a); nb, db = c.conv(b)
        diff = p_add(p_mul(na, db), p_mul(nb, da), -1)
    except (TooBig, RecursionError): return False, None
    if diff: return False, None
    return True, c.divisors
