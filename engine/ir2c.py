#!/usr/bin/env python3
"""Prototype: LLVM-14 textual IR (typed pointers) -> C for CBMC.
Usage: ir2c.py in.ll out.c
"""
import re, sys, struct, hashlib

# ---------------------------------------------------------------- tokenizer
TOK = re.compile(r'''
   (?P<ws>\s+)
 | (?P<cstr>c"(?:[^"\\]|\\[0-9A-Fa-f]{2}|\\\\)*")
 | (?P<qname>[%@]"(?:[^"\\]|\\.)*")
 | (?P<name>[%@][-a-zA-Z$._0-9]+)
 | (?P<attrg>\#[0-9]+)
 | (?P<meta>![-a-zA-Z$._0-9]*)
 | (?P<hex>0x[KMLHR]?[0-9A-Fa-f]+)
 | (?P<num>-?[0-9]+\.[0-9]*(?:[eE][-+]?[0-9]+)?|-?[0-9]+)
 | (?P<dots>\.\.\.)
 | (?P<str>"(?:[^"\\]|\\.)*")
 | (?P<word>[a-zA-Z_][a-zA-Z_0-9.]*)
 | (?P<p>[()\[\]{}<>,=*:])
''', re.X)

def tokenize(s):
    out = []
    pos = 0
    while pos < len(s):
        if s[pos] == ';':
            break
        m = TOK.match(s, pos)
        if not m:
            raise SyntaxError("tok: %r" % s[pos:pos+40])
        pos = m.end()
        k = m.lastgroup
        if k == 'ws':
            continue
        out.append((k, m.group(k)))
    return out

# ---------------------------------------------------------------- types
class T:
    def __init__(s, k, **kw):
        s.k = k
        s.__dict__.update(kw)
    def key(s):
        if s.k == 'int': return 'i%d' % s.bits
        if s.k in ('void', 'float', 'double', 'x86_fp80', 'label', 'metadata', 'half'): return s.k
        if s.k == 'ptr': return s.to.key() + '*'
        if s.k == 'named': return '%' + s.name
        if s.k == 'struct': return ('<{' if s.packed else '{') + ','.join(f.key() for f in s.fields) + ('}>' if s.packed else '}')
        if s.k == 'array': return '[%d x %s]' % (s.n, s.elem.key())
        if s.k == 'vector': return '<%d x %s>' % (s.n, s.elem.key())
        if s.k == 'func': return s.ret.key() + '(' + ','.join(p.key() for p in s.params) + (',...' if s.vararg else '') + ')'
        raise Exception(s.k)
    def __repr__(s): return s.key()
    def __eq__(s, o): return isinstance(o, T) and s.key() == o.key()
    def __hash__(s): return hash(s.key())

VOID = T('void'); I1 = T('int', bits=1); I8 = T('int', bits=8); I32 = T('int', bits=32); I64 = T('int', bits=64)
DOUBLE = T('double'); FLOAT = T('float')
def PTR(t): return T('ptr', to=t)

class P:
    """token stream parser"""
    def __init__(s, toks): s.t = toks; s.i = 0
    def peek(s, o=0): return s.t[s.i+o] if s.i+o < len(s.t) else ('eof', '')
    def next(s): x = s.peek(); s.i += 1; return x
    def at(s, v): return s.peek()[1] == v
    def eat(s, v):
        if s.at(v): s.i += 1; return True
        return False
    def expect(s, v):
        if not s.eat(v): raise SyntaxError("expected %r got %r in %s" % (v, s.peek(), ' '.join(x[1] for x in s.t[max(0,s.i-8):s.i+8])))
    def eof(s): return s.i >= len(s.t)

    def type(s):
        k, v = s.next()
        if k == 'word':
            if v == 'void': t = VOID
            elif re.fullmatch(r'i[0-9]+', v): t = T('int', bits=int(v[1:]))
            elif v in ('float', 'double', 'x86_fp80', 'label', 'metadata', 'half'): t = T(v)
            elif v == 'opaque': t = T('opaque')
            elif v == 'ptr': t = PTR(I8)
            else: raise SyntaxError("type word %r" % v)
        elif k in ('name', 'qname') and v[0] == '%':
            t = T('named', name=unq(v[1:]))
        elif v == '{':
            t = T('struct', fields=s.typelist('}'), packed=False)
        elif v == '[':
            n = int(s.next()[1]); assert s.next()[1] == 'x'
            e = s.type(); s.expect(']'); t = T('array', n=n, elem=e)
        elif v == '<':
            if s.at('{'):
                s.next(); f = s.typelist('}'); s.expect('>'); t = T('struct', fields=f, packed=True)
            else:
                n = int(s.next()[1]); assert s.next()[1] == 'x'
                e = s.type(); s.expect('>'); t = T('vector', n=n, elem=e)
        else:
            raise SyntaxError("type %r %r" % (k, v))
        while True:
            if s.at('*'): s.next(); t = PTR(t)
            elif s.at('(') :
                # function type
                s.next(); ps = []; va = False
                while not s.at(')'):
                    if s.peek()[0] == 'dots': s.next(); va = True
                    else:
                        ps.append(s.type())
                        s.skip_param_attrs()
                    s.eat(',')
                s.expect(')')
                t = T('func', ret=t, params=ps, vararg=va)
            elif s.peek()[1] == 'addrspace': raise SyntaxError('addrspace')
            else: break
        return t
    def typelist(s, close):
        r = []
        while not s.at(close):
            r.append(s.type()); s.eat(',')
        s.expect(close)
        return r
    PATTRS = {'noundef','nonnull','nocapture','readonly','writeonly','noalias','zeroext','signext','returned','inreg','nest','immarg','readnone','nofree','swiftself','swifterror'}
    def skip_param_attrs(s):
        while True:
            k, v = s.peek()
            if k == 'word' and v in s.PATTRS: s.next()
            elif k == 'word' and v in ('align', 'dereferenceable', 'dereferenceable_or_null'):
                s.next()
                if s.at('('): s.next(); s.next(); s.expect(')')
                else: s.next()
            elif k == 'word' and v in ('sret', 'byval', 'byref', 'inalloca', 'preallocated', 'elementtype'):
                s.next(); s.expect('('); s.type(); s.expect(')')
            else: break

def unq(n):
    if n.startswith('"'):
        n = n[1:-1]
        n = re.sub(r'\\([0-9A-Fa-f]{2})', lambda m: chr(int(m.group(1), 16)), n)
    return n

# ---------------------------------------------------------------- values
class V:
    """operand: kind in local, global, int, float, null, undef, zero, cexpr, agg, cstr"""
    def __init__(s, k, ty, **kw): s.k = k; s.ty = ty; s.__dict__.update(kw)

class Module:
    def __init__(s):
        s.named = {}      # name -> T (struct/opaque)
        s.globals = {}    # name -> dict
        s.gorder = []
        s.funcs = {}      # name -> dict(ret, params, vararg, blocks/None, attrs)
        s.forder = []
        s.attrgroups = {}
        s.ctors = []
        s.aliases = {}

CONSTOPS = {'getelementptr','bitcast','ptrtoint','inttoptr','add','sub','mul','and','or','xor','shl','lshr','ashr','icmp','select','trunc','zext','sext','addrspacecast','udiv','sdiv','urem','srem','fcmp','fneg', 'sitofp', 'uitofp', 'fptosi', 'fptoui','fpext','fptrunc','extractvalue', 'insertvalue'}

def parse_value(p, ty):
    k, v = p.next()
    if k in ('name', 'qname'):
        return V('local' if v[0] == '%' else 'global', ty, name=unq(v[1:]))
    if k == 'num':
        if ty.k == 'int': return V('int', ty, val=int(v))
        return V('float', ty, val=float(v))
    if k == 'hex':
        if ty.k in ('double', 'float'):
            bits = int(v[2:], 16)
            return V('float', ty, val=struct.unpack('<d', struct.pack('<Q', bits))[0])
        if ty.k == 'x86_fp80':
            # 0xK<20 hex digits>: 80-bit extended precision; decoded to the nearest double (long double arithmetic is only met in
            # library code such as std::generate_canonical and is treated as double by the executor)
            h = v[3:] if v[2] in 'KLMHR' else v[2:]
            bits = int(h, 16); sign = bits >> 79; exp = (bits >> 64) & 0x7fff; mant = bits & ((1 << 64) - 1)
            val = 0.0 if (exp == 0 and mant == 0) else (mant / float(1 << 63)) * 2.0 ** (exp - 16383)
            return V('float', ty, val=-val if sign else val)
        raise SyntaxError('hex const of type %s' % ty)
    if k == 'cstr':
        raw = v[2:-1]
        bs = bytearray(); i = 0
        while i < len(raw):
            if raw[i] == '\\':
                if raw[i+1] == '\\': bs.append(92); i += 2
                else: bs.append(int(raw[i+1:i+3], 16)); i += 3
            else: bs.append(ord(raw[i])); i += 1
        return V('cstr', ty, val=bytes(bs))
    if k == 'word':
        if v == 'null': return V('null', ty)
        if v in ('undef', 'poison'): return V('undef', ty)
        if v == 'zeroinitializer': return V('zero', ty)
        if v == 'true': return V('int', ty, val=1)
        if v == 'false': return V('int', ty, val=0)
        if v in CONSTOPS: return parse_cexpr(p, v, ty)
        if v == 'blockaddress' or v == 'dso_local_equivalent' or v == 'no_cfi': raise SyntaxError(v)
    if v == '{' or v == '[' or (v == '<' ):
        close = {'{': '}', '[': ']', '<': '>'}[v]
        packed = False
        if v == '<' and p.at('{'): p.next(); close = '}'; packed = True
        elems = []
        while not p.at(close):
            t = p.type(); elems.append(parse_value(p, t)); p.eat(',')
        p.expect(close)
        if packed: p.expect('>')
        return V('agg', ty, elems=elems)
    raise SyntaxError("value %r %r (type %s)" % (k, v, ty))

def parse_cexpr(p, op, ty):
    flags = []
    while p.peek()[0] == 'word' and p.peek()[1] in ('inbounds', 'nuw', 'nsw', 'exact', 'inrange'):
        flags.append(p.next()[1])
    pred = None
    if op in ('icmp', 'fcmp'): pred = p.next()[1]
    p.expect('(')
    if op == 'getelementptr':
        st = p.type(); p.expect(',')
        ops = []
        while not p.at(')'):
            p.eat('inrange')
            t = p.type(); ops.append(parse_value(p, t)); p.eat(',')
        p.expect(')')
        return V('cexpr', ty, op=op, srcty=st, ops=ops)
    if op in ('bitcast', 'ptrtoint', 'inttoptr', 'trunc', 'zext', 'sext', 'addrspacecast', 'sitofp', 'uitofp', 'fptosi', 'fptoui', 'fpext', 'fptrunc'):
        t = p.type(); a = parse_value(p, t)
        assert p.next()[1] == 'to'
        dt = p.type(); p.expect(')')
        return V('cexpr', dt, op=op, ops=[a])
    ops = []
    while not p.at(')'):
        t = p.type(); ops.append(parse_value(p, t)); p.eat(',')
    p.expect(')')
    rt = ty
    return V('cexpr', rt, op=op, ops=ops, pred=pred)

def typed_value(p):
    t = p.type()
    p.skip_param_attrs()
    return parse_value(p, t)

# ---------------------------------------------------------------- module parse
LINKAGE = {'private','internal','available_externally','linkonce','weak','common','appending','extern_weak','linkonce_odr','weak_odr','external'}
MISC = {'dso_local','dso_preemptable','default','hidden','protected','unnamed_addr','local_unnamed_addr','thread_local','externally_initialized'}

def parse_module(text):
    m = Module()
    lines = text.split('\n')
    i = 0
    while i < len(lines):
        ln = lines[i]; i += 1
        if not ln or ln[0] == ';' or ln.startswith('source_filename') or ln.startswith('target ') or ln[0] == '!' or ln.startswith('$'):
            continue
        if ln.startswith('attributes #'):
            mm = re.match(r'attributes (#\d+) = \{(.*)\}', ln)
            m.attrgroups[mm.group(1)] = mm.group(2)
            continue
        if ln[0] == '%':
            p = P(tokenize(ln))
            name = unq(p.next()[1][1:]); p.expect('='); assert p.next()[1] == 'type'
            if p.at('opaque'): m.named[name] = T('opaque')
            else: m.named[name] = p.type()
            continue
        if ln[0] == '@':
            p = P(tokenize(ln))
            name = unq(p.next()[1][1:]); p.expect('=')
            g = dict(name=name, linkage='external', const=False, init=None)
            while True:
                k, v = p.peek()
                if v in LINKAGE: g['linkage'] = v; p.next()
                elif v in MISC: p.next()
                elif v == 'thread_local': p.next()
                else: break
            k, v = p.next()
            if v == 'alias':
                # @a = alias <ty>, <ty>* @target  (constructor/destructor aliases): resolved after parsing
                toks = [t for t in p.t[p.i:] if t[0] in ('name', 'qname') and t[1][0] == '@']
                m.aliases[name] = unq(toks[-1][1][1:]); continue
            g['const'] = (v == 'constant')
            ty = p.type(); g['ty'] = ty
            if not p.eof() and not p.at(','):
                g['init'] = parse_value(p, ty)
            m.globals[name] = g; m.gorder.append(name)
            continue
        if ln.startswith('declare') or ln.startswith('define'):
            isdef = ln.startswith('define')
            p = P(tokenize(ln)); p.next()
            f = dict(linkage='external', attrs='', blocks=None)
            while True:
                k, v = p.peek()
                if v in LINKAGE: f['linkage'] = v; p.next()
                elif v in MISC or v in CCONV: p.next()
                elif v in P.PATTRS or v in ('align','dereferenceable', 'dereferenceable_or_null'): p.skip_param_attrs()
                else: break
            # return type: parse base type without consuming '(' of the param list
            ret = parse_ret_type(p)
            name = unq(p.next()[1][1:])
            p.expect('(')
            params = []; va = False
            while not p.at(')'):
                if p.peek()[0] == 'dots': p.next(); va = True
                else:
                    t = p.type(); p.skip_param_attrs()
                    pn = None
                    if p.peek()[0] in ('name', 'qname'): pn = unq(p.next()[1][1:])
                    params.append((t, pn))
                p.eat(',')
            p.expect(')')
            rest = ' '.join(x[1] for x in p.t[p.i:])
            f.update(name=name, ret=ret, params=params, vararg=va, attrs=rest)
            if isdef:
                body = []
                while lines[i] != '}':
                    body.append(lines[i]); i += 1
                i += 1
                f['blocks'] = parse_body(body, params)
            m.funcs[name] = f; m.forder.append(name)
            continue
        raise SyntaxError("top: " + ln[:100])
    for a, t in m.aliases.items():
        while t in m.aliases: t = m.aliases[t]
        if t in m.funcs:
            m.funcs[a] = m.funcs[t]; m.forder.append(a)
        elif t in m.globals:
            m.globals[a] = m.globals[t]
    return m

def parse_ret_type(p):
    # parse a type but stop before "@name(": function-pointer return types are rare; handle pointer suffixes
    k, v = p.peek()
    save = p.i
    # trick: temporarily find the '@' name token position; parse type from tokens up to it
    j = p.i
    while p.t[j][0] not in ('name', 'qname') or p.t[j][1][0] != '@': j += 1
    sub = P(p.t[p.i:j]); t = sub.type(); assert sub.eof(), (sub.t, sub.i)
    p.i = j
    return t

def parse_body(body, params):
    blocks = []  # list of (label, [instr])
    cur = None
    nparams = len(params)
    # implicit numbering: params take %0..%n-1 when unnamed, entry block label next
    unnamed = sum(1 for t, n in params if n is None or n.isdigit())
    for ln in body:
        if not ln.strip(): continue
        s = ln.strip()
        if s.startswith(';'): continue
        mm = re.match(r'^([-a-zA-Z$._0-9]+|"[^"]*"):', ln)
        if mm and not ln.startswith(' '):
            cur = (unq(mm.group(1)), []); blocks.append(cur); continue
        if cur is None:
            cur = (str(unnamed), []); blocks.append(cur)
        if s.startswith('to label') or s.startswith('catch ') or s.startswith('cleanup') or s.startswith('filter ') or (s.startswith('i') and cur[1] and cur[1][-1]['op'] == 'switch' and not cur[1][-1].get('done')) or s == ']' or s.startswith('], !'):
            # continuation lines
            ins = cur[1][-1]
            ins['cont'].append(s)
            if s == ']' or s.startswith('], !'): s = ']'; ins['cont'][-1] = ']'; ins['done'] = True
            continue
        cur[1].append(dict(raw=s, cont=[], op=None))
        # determine op quickly
        t = s.split(' = ', 1)
        rhs = t[1] if len(t) == 2 and re.match(r'^%', t[0]) else s
        w = rhs.split()
        op = w[0]
        if op in ('tail', 'musttail', 'notail'): op = w[1]
        cur[1][-1]['op'] = op
    for lab, ins in blocks:
        for x in ins: parse_instr(x)
    return blocks

FASTMATH = {'nnan','ninf','nsz','arcp','contract','afn','reassoc','fast'}
CCONV = {'ccc','fastcc','coldcc'}

def parse_instr(x):
    s = x['raw']
    if x['cont']: s = s + ' ' + ' '.join(x['cont'])
    s = re.sub(r'(,\s*![A-Za-z_.][A-Za-z_.0-9]*\s+![0-9]+)+\s*$', '', s)      # metadata attachments carry no semantics here
    p = P(tokenize(s))
    x['dst'] = None
    if p.peek()[0] in ('name', 'qname') and p.peek(1)[1] == '=':
        x['dst'] = unq(p.next()[1][1:]); p.next()
    op = p.next()[1]
    if op in ('tail', 'musttail', 'notail'): op = p.next()[1]
    x['op'] = op
    def flags():
        while p.peek()[0] == 'word' and (p.peek()[1] in ('nuw','nsw','exact','inbounds','volatile','atomic') or p.peek()[1] in FASTMATH): p.next()
    if op in ('add','sub','mul','udiv','sdiv','urem','srem','shl','lshr','ashr','and','or','xor','fadd','fsub','fmul','fdiv','frem'):
        flags(); t = p.type(); a = parse_value(p, t); p.expect(','); b = parse_value(p, t)
        x.update(ty=t, a=a, b=b)
    elif op == 'fneg':
        flags(); t = p.type(); x.update(ty=t, a=parse_value(p, t))
    elif op in ('icmp', 'fcmp'):
        flags(); pred = p.next()[1]; t = p.type(); a = parse_value(p, t); p.expect(','); b = parse_value(p, t)
        x.update(pred=pred, ty=I1, opty=t, a=a, b=b)
    elif op == 'alloca':
        p.eat('inalloca'); t = p.type(); n = None
        if p.eat(','):
            if p.at('align'): pass
            else: n = typed_value(p)
        x.update(ty=PTR(t), aty=t, n=n)
    elif op == 'load':
        flags(); t = p.type(); p.expect(','); a = typed_value(p); x.update(ty=t, a=a)
    elif op == 'store':
        flags(); v = typed_value(p); p.expect(','); a = typed_value(p); x.update(v=v, a=a, ty=VOID)
    elif op == 'getelementptr':
        flags(); st = p.type(); p.expect(','); base = typed_value(p); idx = []
        while p.eat(','): idx.append(typed_value(p))
        x.update(srcty=st, base=base, idx=idx)
    elif op in ('bitcast','ptrtoint','inttoptr','trunc','zext','sext','fptrunc','fpext','fptoui','fptosi','uitofp','sitofp','addrspacecast'):
        a = typed_value(p); assert p.next()[1] == 'to'; t = p.type(); x.update(ty=t, a=a)
    elif op == 'select':
        flags(); c = typed_value(p); p.expect(','); a = typed_value(p); p.expect(','); b = typed_value(p); x.update(ty=a.ty, c=c, a=a, b=b)
    elif op == 'phi':
        flags(); t = p.type(); inc = []
        while True:
            p.expect('['); v = parse_value(p, t); p.expect(','); lab = unq(p.next()[1][1:]); p.expect(']'); inc.append((v, lab))
            if not p.eat(','): break
        x.update(ty=t, inc=inc)
    elif op == 'br':
        if p.at('label'): p.next(); x.update(targets=[unq(p.next()[1][1:])], c=None)
        else:
            c = typed_value(p); p.expect(','); p.next(); a = unq(p.next()[1][1:]); p.expect(','); p.next(); b = unq(p.next()[1][1:])
            x.update(c=c, targets=[a, b])
    elif op == 'switch':
        v = typed_value(p); p.expect(','); p.next(); d = unq(p.next()[1][1:]); p.expect('[')
        cases = []
        while not p.at(']'):
            cv = typed_value(p); p.expect(','); p.next(); cases.append((cv, unq(p.next()[1][1:])))
        x.update(v=v, default=d, cases=cases)
    elif op == 'ret':
        t = p.type(); x.update(v=None if t.k == 'void' else parse_value(p, t))
    elif op in ('call', 'invoke'):
        flags()
        while p.peek()[1] in CCONV: p.next()
        p.skip_param_attrs()
        rt = parse_call_ret(p)
        callee = parse_value(p, None)
        p.expect('(')
        args = []
        while not p.at(')'):
            if p.peek()[0] == 'word' and p.peek()[1] == 'metadata':
                # metadata arg: skip to ',' or ')'
                depth = 0
                while not (depth == 0 and (p.at(',') or p.at(')'))):
                    if p.at('('): depth += 1
                    if p.at(')'): depth -= 1
                    p.next()
                args.append(None)
            else:
                args.append(typed_value(p))
            p.eat(',')
        p.expect(')')
        attrs = []
        while not p.eof() and not p.at('to'):
            attrs.append(p.next()[1])
        x.update(rt=rt, callee=callee, args=args, cattrs=attrs)
        if rt.k == 'func': x['ty'] = rt.ret; x['fty'] = rt
        else: x['ty'] = rt; x['fty'] = None
        if op == 'invoke':
            p.expect('to'); p.next(); x['normal'] = unq(p.next()[1][1:]); assert p.next()[1] == 'unwind'; p.next(); x['unwind'] = unq(p.next()[1][1:])
    elif op == 'landingpad':
        t = p.type(); clauses = []; cleanup = False
        while not p.eof():
            w = p.next()[1]
            if w == 'cleanup': cleanup = True
            elif w == 'catch': clauses.append(('catch', typed_value(p)))
            elif w == 'filter': clauses.append(('filter', typed_value(p)))
        x.update(ty=t, clauses=clauses, cleanup=cleanup)
    elif op == 'resume':
        x.update(v=typed_value(p))
    elif op == 'unreachable':
        pass
    elif op == 'extractvalue':
        a = typed_value(p); idx = []
        while p.eat(','): idx.append(int(p.next()[1]))
        x.update(a=a, idx=idx)
    elif op == 'insertvalue':
        a = typed_value(p); p.expect(','); v = typed_value(p); idx = []
        while p.eat(','): idx.append(int(p.next()[1]))
        x.update(a=a, v=v, idx=idx, ty=a.ty)
    elif op == 'freeze':
        a = typed_value(p); x.update(a=a, ty=a.ty)
    elif op == 'atomicrmw':
        flags(); rop = p.next()[1]; a = typed_value(p); p.expect(','); v = typed_value(p); x.update(rop=rop, a=a, v=v, ty=v.ty)
    elif op == 'cmpxchg':
        flags(); p.eat('weak'); flags(); a = typed_value(p); p.expect(','); c = typed_value(p); p.expect(','); n = typed_value(p)
        x.update(a=a, c=c, n=n, ty=T('struct', fields=[c.ty, I1], packed=False))
    elif op == 'fence':
        pass
    elif op in ('extractelement', 'insertelement', 'shufflevector', 'va_arg'):
        raise SyntaxError('unsupported instr ' + op)
    else:
        raise SyntaxError('instr ' + s[:120])

def parse_call_ret(p):
    # ret type or full function type (for varargs); callee follows (a value token starting with @ or % or a cexpr word)
    j = p.i; depth = 0
    # find the callee token: first '@'/'%' name at depth 0 that is followed by '(' and is not a named type... heuristic:
    # scan forward; named types (%"class..") may appear in function-type; the callee is the last name token before the arg '(' at depth 0
    # Strategy: try parse type; if next token is '(' then the type parser consumed it as function type -> handled in type(); so do manual:
    t = parse_type_nofunc(p)
    if p.at('('):
        # could be function type "(params)" followed by callee, or ... callee must be a name/cexpr, so '(' here means function type
        save = p.i
        p.next(); ps = []; va = False
        while not p.at(')'):
            if p.peek()[0] == 'dots': p.next(); va = True
            else: ps.append(p.type()); p.skip_param_attrs()
            p.eat(',')
        p.expect(')')
        t = T('func', ret=t, params=ps, vararg=va)
        while p.eat('*'): t = PTR(t)
        if t.k == 'ptr': t = t.to  # 'rettype (params)*' callee form
    return t

def parse_type_nofunc(p):
    # like P.type but does not treat '(' as function type suffix
    k, v = p.peek()
    # temporarily parse base and '*' only
    sub_start = p.i
    # reuse P.type by cutting tokens at first depth-0 '(' after base
    # find end of base type
    j = p.i; depth = 0
    while True:
        kk, vv = p.t[j]
        if vv in '{[<' and kk == 'p': depth += 1
        elif vv in '}]>' and kk == 'p': depth -= 1
        j += 1
        if depth == 0: break
    while p.t[j][1] == '*': j += 1
    sub = P(p.t[p.i:j]); t = sub.type(); assert sub.eof()
    p.i = j
    return t

# ---------------------------------------------------------------- C emission
class Emit:
    def __init__(s, m):
        s.m = m
        s.names = {}
        s.used = set()
        s.structs = {}     # key -> cname
        s.structdefs = []  # ordered (cname, T)
        s.fptypes = {}
        s.out = []
        s.typeinfo = {}

    def cname(s, n, pre='g_'):
        if (pre, n) in s.names: return s.names[(pre, n)]
        c = re.sub(r'[^A-Za-z0-9_]', '_', n)
        if pre == 'g_' and re.fullmatch(r'[A-Za-z_][A-Za-z0-9_]*', n) : c = n
        else: c = pre + c
        if c in C_KEYWORDS: c = c + '_'
        base = c; k = 1
        while c in s.used: c = '%s_%d' % (base, k); k += 1
        s.used.add(c); s.names[(pre, n)] = c
        return c

    def resolve(s, t):
        while t.k == 'named':
            t = s.m.named[t.name]
        return t

    def ctype(s, t):
        k = t.k
        if k == 'void': return 'void'
        if k == 'int':
            b = t.bits
            if b == 1: return 'unsigned char'
            if b in (8, 16, 32, 64): return 'uint%d_t' % b
            return 'unsigned __CPROVER_bitvector[%d]' % b
        if k == 'float': return 'float'
        if k == 'double': return 'double'
        if k == 'x86_fp80': return 'long double'
        if k == 'ptr':
            to = t.to
            if to.k == 'func': return s.fptype(to)
            if to.k == 'void' : return 'void*'
            r = s.resolve(to) if to.k == 'named' else to
            if r.k == 'opaque': return 'void*'
            return s.ctype(to) + '*'
        if k == 'named':
            r = s.m.named[t.name]
            if r.k == 'opaque': return 'void'
            return 'struct ' + s.structname('N:' + t.name, r, t.name)
        if k == 'struct':
            return 'struct ' + s.structname('L:' + t.key(), t, None)
        if k == 'array':
            return 'struct ' + s.structname('A:' + t.key(), t, None)
        if k == 'func':
            return s.fptype(t)  # only as pointee
        raise Exception('ctype ' + k)

    def structname(s, key, t, hint):
        if key in s.structs: return s.structs[key]
        if hint: cn = 'S_' + re.sub(r'[^A-Za-z0-9_]', '_', hint)[:60]
        else: cn = ('A_' if t.k == 'array' else 'L_') + hashlib.md5(key.encode()).hexdigest()[:10]
        base = cn; k = 1
        while cn in s.used: cn = '%s_%d' % (base, k); k += 1
        s.used.add(cn)
        s.structs[key] = cn
        # ensure member types are registered first (by-value deps)
        if t.k == 'array':
            s.ctype(t.elem)
        else:
            for f in t.fields: s.ctype(f)
        s.structdefs.append((cn, t))
        return cn

    def fptype(s, ft):
        key = ft.key()
        if key in s.fptypes: return s.fptypes[key]
        cn = 'FP_' + hashlib.md5(key.encode()).hexdigest()[:10]
        s.fptypes[key] = cn
        return cn

    def emit_typedefs(s):
        # iterate until closure (ctype calls may add more)
        lines = []
        done = 0
        # force all
        for cn, t in list(s.structdefs): pass
        lines.append('/* struct forward decls */')
        fp_done = set()
        out_structs = []
        emitted = set()
        # topological emission: structdefs appended after deps registered, but deps' own defs appended earlier only if first seen earlier.
        # do explicit DFS
        bykey = {cn: t for cn, t in s.structdefs}
        order = []
        state = {}
        def deps(t):
            if t.k == 'array': return [t.elem]
            return list(t.fields)
        def visit_type(t):
            if t.k == 'named':
                r = s.m.named[t.name]
                if r.k == 'opaque': return
                cn = s.structname('N:' + t.name, r, t.name); visit(cn, r)
            elif t.k == 'struct':
                cn = s.structname('L:' + t.key(), t, None); visit(cn, t)
            elif t.k == 'array':
                cn = s.structname('A:' + t.key(), t, None); visit(cn, t)
        def visit(cn, t):
            if state.get(cn) == 2: return
            if state.get(cn) == 1: raise Exception('recursive by-value struct ' + cn)
            state[cn] = 1
            for d in deps(t): visit_type(d)
            state[cn] = 2; order.append((cn, t))
        n0 = -1
        while n0 != len(s.structdefs):
            n0 = len(s.structdefs)
            for cn, t in list(s.structdefs):
                visit(cn, t)
                # register pointer member types so typedef names exist
                for d in deps(t): s.ctype(d)
        fwd = ['struct %s;' % cn for cn, t in order]
        body = []
        for cn, t in order:
            if t.k == 'array':
                n = t.n
                if n == 0: body.append('struct %s { %s a[]; };' % (cn, s.ctype(t.elem)) if False else 'struct %s { char __empty[0]; };' % cn)
                else: body.append('struct %s { %s a[%d]; };' % (cn, s.ctype(t.elem), n))
            else:
                fs = ' '.join('%s f%d;' % (s.ctype(f), i) for i, f in enumerate(t.fields))
                if not t.fields: fs = 'char __empty[0];'
                body.append('struct %s%s { %s };' % ('__attribute__((packed)) ' if t.packed else '', cn, fs))
        # function pointer typedefs (may reference struct pointers only -> after fwd decls). iterate to closure
        fpl = []
        seen = set()
        while True:
            pending = [(k, v) for k, v in s.fptypes.items() if k not in seen]
            if not pending: break
            for k, cn in pending:
                seen.add(k)
                ft = s._fpt[k]
                ps = [s.ctype(x) for x in ft.params]
                a = ', '.join(ps) if ps else ('void' if not ft.vararg else '')
                if ft.vararg: a = (a + ', ...') if a else ''
                fpl.append('typedef %s (*%s)(%s);' % (s.ctype(ft.ret), cn, a))
        return fwd, fpl, body

C_KEYWORDS = {'auto','break','case','char','const','continue','default','do','double','else','enum','extern','float','for','goto','if','int','long','register','return','short','signed','sizeof','static','struct','switch','typedef','union','unsigned','void','volatile','while','main'}

# keep function types for typedef emission
_orig_fptype = Emit.fptype
def _fptype(s, ft):
    if not hasattr(s, '_fpt'): s._fpt = {}
    s._fpt[ft.key()] = ft
    return _orig_fptype(s, ft)
Emit.fptype = _fptype

def fconst(v, ty):
    import math
    if math.isnan(v): return '__builtin_nan("")' if ty.k == 'double' else '__builtin_nanf("")'
    if math.isinf(v):
        x = '__builtin_inf()' if ty.k == 'double' else '__builtin_inff()'
        return x if v > 0 else '(-' + x + ')'
    h = float(v).hex()
    return '(%s)' % (h if ty.k == 'double' else h + 'f') if ty.k != 'x86_fp80' else '(%sL)' % h

class FuncEmit:
    def __init__(s, E, f):
        s.E = E; s.f = f; s.m = E.m
        s.ltypes = {}
        s.lines = []

    def lname(s, n): return 'v_' + re.sub(r'[^A-Za-z0-9_]', '_', n) + ('_' + hashlib.md5(n.encode()).hexdigest()[:4] if re.search(r'[^A-Za-z0-9_]', n) else '')
    def blab(s, n): return 'L_' + re.sub(r'[^A-Za-z0-9_]', '_', n) + ('_' + hashlib.md5(n.encode()).hexdigest()[:4] if re.search(r'[^A-Za-z0-9_]', n) else '')

    # ---- value expression
    def val(s, v):
        E = s.E
        k = v.k
        if k == 'local': return s.lname(v.name)
        if k == 'global':
            return globref(E, v.name)
        if k == 'int':
            t = v.ty; b = t.bits; x = v.val & ((1 << b) - 1)
            if b <= 32: return '((%s)%dU)' % (E.ctype(t), x)
            if b <= 64: return '((%s)%dULL)' % (E.ctype(t), x)
            return '((%s)%dULL)' % (E.ctype(t), x)  # TODO >64
        if k == 'float': return fconst(v.val, v.ty)
        if k == 'null': return '((%s)0)' % E.ctype(v.ty)
        if k in ('undef', 'zero'):
            t = E.resolve(v.ty) if v.ty.k == 'named' else v.ty
            if t.k in ('int',): return '((%s)0)' % E.ctype(v.ty)
            if t.k in ('float', 'double', 'x86_fp80'): return '((%s)0.0)' % E.ctype(v.ty)
            if t.k == 'ptr': return '((%s)0)' % E.ctype(v.ty)
            return '((%s){0})' % E.ctype(v.ty)
        if k == 'cexpr': return s.cexpr(v)
        if k == 'agg':
            return '((%s)%s)' % (E.ctype(v.ty), s.agginit(v))
        if k == 'cstr':
            return '((%s)%s)' % (E.ctype(v.ty), s.agginit(v))
        raise Exception('val ' + k)

    def agginit(s, v):
        E = s.E
        if v.k == 'cstr':
            return '{{' + ','.join(str(b) for b in v.val) + '}}'
        if v.k == 'zero' or v.k == 'undef': return '{0}'
        if v.k == 'agg':
            t = E.resolve(v.ty) if v.ty.k == 'named' else v.ty
            inner = ','.join(s.agginit(e) if e.k in ('agg', 'cstr') or (e.k in ('zero', 'undef') and (E.resolve(e.ty) if e.ty.k=='named' else e.ty).k in ('struct', 'array')) else s.val(e) for e in v.elems)
            if t.k == 'array': return '{{' + inner + '}}'
            return '{' + inner + '}'
        return s.val(v)

    def cexpr(s, v):
        E = s.E; op = v.op
        if op == 'getelementptr':
            return s.gep(v.srcty, v.ops[0], v.ops[1:])
        if op in ('bitcast', 'inttoptr', 'addrspacecast'):
            return '((%s)%s)' % (E.ctype(v.ty), s.val(v.ops[0]))
        if op == 'ptrtoint':
            return '((%s)(uintptr_t)%s)' % (E.ctype(v.ty), s.val(v.ops[0]))
        if op in ('trunc', 'zext'):
            return '((%s)%s)' % (E.ctype(v.ty), s.val(v.ops[0]))
        if op in BINOPS:
            return s.binop(op, v.ops[0].ty, s.val(v.ops[0]), s.val(v.ops[1]))
        if op == 'icmp':
            return s.icmp(v.pred, v.ops[0].ty, s.val(v.ops[0]), s.val(v.ops[1]))
        if op == 'select':
            return '(%s ? %s : %s)' % (s.val(v.ops[0]), s.val(v.ops[1]), s.val(v.ops[2]))
        raise Exception('cexpr ' + op)

    def gep_result_type(s, srcty, idx):
        E = s.E
        t = srcty
        for i, ix in enumerate(idx):
            if i == 0: continue
            r = E.resolve(t) if t.k == 'named' else t
            if r.k == 'struct': t = r.fields[ix.val]
            elif r.k in ('array', 'vector'): t = r.elem
            else: raise Exception('gep into ' + r.k)
        return PTR(t)

    def gep(s, srcty, base, idx):
        E = s.E
        b = s.val(base)
        # base pointer C type may differ from srcty* only if opaque; cast to be safe
        e = '((%s*)%s)' % (E.ctype(srcty), b) if E.ctype(PTR(srcty)) != E.ctype(base.ty) else b
        first = idx[0]
        if srcty.k == 'void' or (srcty.k == 'named' and E.m.named[srcty.name].k == 'opaque'):
            raise Exception('gep on opaque')
        acc = '%s[%s]' % (e, s.sidx(first))
        t = srcty
        for ix in idx[1:]:
            r = E.resolve(t) if t.k == 'named' else t
            if r.k == 'struct':
                acc += '.f%d' % ix.val; t = r.fields[ix.val]
            elif r.k == 'array':
                acc += '.a[%s]' % s.sidx(ix); t = r.elem
            else: raise Exception('gep into ' + r.k)
        return '(&%s)' % acc

    def sidx(s, ix):
        # indices are signed
        if ix.k == 'int':
            return str(ix.val)
        b = ix.ty.bits
        return '(int%d_t)%s' % (b, s.val(ix)) if b in (8, 16, 32, 64) else s.val(ix)

    def binop(s, op, t, a, b):
        E = s.E
        ct = E.ctype(t)
        if t.k == 'int':
            w = t.bits
            wide = 'uint32_t' if w < 32 else ct
            sg = {8: 'int8_t', 16: 'int16_t', 32: 'int32_t', 64: 'int64_t', 1: 'signed char'}.get(w, 'signed __CPROVER_bitvector[%d]' % w)
            if op in ('add', 'sub', 'mul', 'and', 'or', 'xor'):
                o = {'add': '+', 'sub': '-', 'mul': '*', 'and': '&', 'or': '|', 'xor': '^'}[op]
                r = '((%s)((%s)%s %s (%s)%s))' % (ct, wide, a, o, wide, b)
                if w == 1: r = '((%s)(%s & 1))' % (ct, r)
                return r
            if op in ('udiv', 'urem'):
                return '((%s)(%s %s %s))' % (ct, a, '/' if op == 'udiv' else '%', b)
            if op in ('sdiv', 'srem'):
                return '((%s)((%s)%s %s (%s)%s))' % (ct, sg, a, '/' if op == 'sdiv' else '%', sg, b)
            if op == 'shl': return '((%s)((%s)%s << %s))' % (ct, wide if w < 32 else ct, a, b)
            if op == 'lshr': return '((%s)(%s >> %s))' % (ct, a, b)
            if op == 'ashr': return '((%s)((%s)%s >> %s))' % (ct, sg, a, b)
        else:
            o = {'fadd': '+', 'fsub': '-', 'fmul': '*', 'fdiv': '/'}.get(op)
            if o: return '(%s %s %s)' % (a, o, b)
            if op == 'frem': return 'fmod(%s, %s)' % (a, b)
        raise Exception('binop %s %s' % (op, t))

    def icmp(s, pred, t, a, b):
        E = s.E
        if t.k == 'ptr':
            if pred in ('eq', 'ne'): return '((unsigned char)((void*)%s %s (void*)%s))' % (a, '==' if pred == 'eq' else '!=', b)
            o = {'ult': '<', 'ule': '<=', 'ugt': '>', 'uge': '>='}.get(pred)
            if o: return '((unsigned char)((uintptr_t)%s %s (uintptr_t)%s))' % (a, o, b)
            o = {'slt': '<', 'sle': '<=', 'sgt': '>', 'sge': '>='}[pred]
            return '((unsigned char)((intptr_t)%s %s (intptr_t)%s))' % (a, o, b)
        w = t.bits
        sg = {8: 'int8_t', 16: 'int16_t', 32: 'int32_t', 64: 'int64_t', 1: 'signed char'}.get(w, 'signed __CPROVER_bitvector[%d]' % w)
        if pred in ('eq', 'ne', 'ult', 'ule', 'ugt', 'uge'):
            o = {'eq': '==', 'ne': '!=', 'ult': '<', 'ule': '<=', 'ugt': '>', 'uge': '>='}[pred]
            return '((unsigned char)(%s %s %s))' % (a, o, b)
        o = {'slt': '<', 'sle': '<=', 'sgt': '>', 'sge': '>='}[pred]
        if w == 1: return '((unsigned char)(-(int)%s %s -(int)%s))' % (a, o, b)
        return '((unsigned char)((%s)%s %s (%s)%s))' % (sg, a, o, sg, b)

    def fcmp(s, pred, a, b):
        base = {'oeq': '==', 'ogt': '>', 'oge': '>=', 'olt': '<', 'ole': '<=', 'one': None, 'ord': None, 'uno': None}
        nan = '(%s != %s || %s != %s)' % (a, a, b, b)
        if pred == 'true': return '((unsigned char)1)'
        if pred == 'false': return '((unsigned char)0)'
        if pred == 'ord': return '((unsigned char)!%s)' % nan
        if pred == 'uno': return '((unsigned char)%s)' % nan
        if pred == 'one': return '((unsigned char)(!%s && %s != %s))' % (nan, a, b)
        if pred == 'une': return '((unsigned char)(%s != %s))' % (a, b)
        if pred == 'ueq': return '((unsigned char)(%s || %s == %s))' % (nan, a, b)
        if pred[0] == 'o': return '((unsigned char)(%s %s %s))' % (a, base[pred], b)
        o = {'ugt': '>', 'uge': '>=', 'ult': '<', 'ule': '<='}[pred]
        return '((unsigned char)(%s || %s %s %s))' % (nan, a, o, b)

    # ---- function
    def emit(s):
        E = s.E; f = s.f
        blocks = f['blocks']
        # collect local types
        unn = 0
        params = []
        for t, n in f['params']:
            if n is None: n = str(unn); unn += 1
            params.append((t, n))
        s.params = params
        decls = {}
        for lab, ins in blocks:
            for x in ins:
                if x['dst'] is not None:
                    decls[x['dst']] = s.result_type(x)
        s.decls = decls
        s.defs = {}
        for lab, ins in blocks:
            for x in ins:
                if x['dst'] is not None: s.defs[x['dst']] = x
        L = s.lines
        for n, t in decls.items():
            if t.k == 'void': continue
            L.append('  %s %s;' % (E.ctype(t), s.lname(n)))
        preds_phi = {}
        s.blockmap = {lab: ins for lab, ins in blocks}
        # reverse post-order so that only genuine loop back-edges are backward gotos
        def succs(lab):
            t = s.blockmap[lab][-1]
            if t['op'] == 'br': return list(t['targets'])
            if t['op'] == 'switch': return [t['default']] + [l for _, l in t['cases']]
            if t['op'] == 'invoke': return [t['normal'], t['unwind']]
            return []
        entry = blocks[0][0]
        # dominators (iterative), natural loops, loop depth
        labs = [l for l, _ in blocks]
        preds = {l: [] for l in labs}
        for l in labs:
            for t in succs(l): preds[t].append(l)
        # reachable set + simple RPO for dominator iteration
        r_seen = set([entry]); r_post = []; st = [(entry, iter(succs(entry)))]
        while st:
            l, it = st[-1]; adv = False
            for nx in it:
                if nx not in r_seen: r_seen.add(nx); st.append((nx, iter(succs(nx)))); adv = True; break
            if not adv: r_post.append(l); st.pop()
        rpo = list(reversed(r_post)); idx = {l: i for i, l in enumerate(rpo)}
        idom = {entry: entry}
        changed = True
        def inter(a, b):
            while a != b:
                while idx[a] > idx[b]: a = idom[a]
                while idx[b] > idx[a]: b = idom[b]
            return a
        while changed:
            changed = False
            for l in rpo[1:]:
                ps = [p for p in preds[l] if p in idom]
                if not ps: continue
                n = ps[0]
                for p in ps[1:]: n = inter(n, p)
                if idom.get(l) != n: idom[l] = n; changed = True
        def dom(a, b):  # a dominates b
            while True:
                if a == b: return True
                if b == entry: return False
                b = idom[b]
        depth = {l: 0 for l in rpo}
        loops = {}
        for l in rpo:
            for t in succs(l):
                if t in idom and dom(t, l):  # back edge l->t
                    body = loops.setdefault(t, set([t]))
                    w = [l]
                    while w:
                        x = w.pop()
                        if x not in body:
                            body.add(x); w.extend(p for p in preds[x] if p in idom)
        for h, body in loops.items():
            for l in body: depth[l] += 1
        seen = set(); post = []
        def osuccs(l):
            ss = succs(l)
            return sorted(ss, key=lambda t: depth.get(t, 0))   # loop-exiting successors first => placed last in RPO
        stack = [(entry, iter(osuccs(entry)))]; seen.add(entry)
        while stack:
            lab, it = stack[-1]
            adv = False
            for nx in it:
                if nx not in seen:
                    seen.add(nx); stack.append((nx, iter(osuccs(nx)))); adv = True; break
            if not adv:
                post.append(lab); stack.pop()
        order = list(reversed(post))
        blocks = [(lab, s.blockmap[lab]) for lab in order]
        first = True
        for lab, ins in blocks:
            L.append('%s: ;' % s.blab(lab))
            s.cur = lab
            for x in ins:
                s.instr(x)
        return L

    def result_type(s, x):
        op = x['op']
        if op == 'getelementptr': return s.gep_result_type(x['srcty'], x['idx'])
        if op == 'extractvalue':
            t = x['a'].ty
            for i in x['idx']:
                r = s.E.resolve(t) if t.k == 'named' else t
                t = r.fields[i] if r.k == 'struct' else r.elem
            return t
        return x['ty']

    def typeof_local(s, n):
        return s.decls.get(n)

    def phi_moves(s, target):
        """emit parallel copies for phis in target coming from s.cur"""
        ins = s.blockmap[target]
        moves = []
        for x in ins:
            if x['op'] != 'phi': break
            for v, lab in x['inc']:
                if lab == s.cur:
                    moves.append((x['dst'], x['ty'], v)); break
        if not moves: return ''
        if len(moves) == 1:
            d, t, v = moves[0]
            return '%s = %s; ' % (s.lname(d), s.val(v))
        out = '{ '
        for i, (d, t, v) in enumerate(moves):
            out += '%s __t%d = %s; ' % (s.E.ctype(t), i, s.val(v))
        for i, (d, t, v) in enumerate(moves):
            out += '%s = __t%d; ' % (s.lname(d), i)
        return out + '} '

    def goto(s, target):
        return '%sgoto %s;' % (s.phi_moves(target), s.blab(target))

    def ret_default(s):
        rt = s.f['ret']
        if rt.k == 'void': return 'return;'
        return 'return %s;' % s.val(V('zero', rt))

    def instr(s, x):
        E = s.E; L = s.lines; op = x['op']; d = s.lname(x['dst']) if x['dst'] is not None else None
        if op == 'sub' and x['a'].k == 'local' and x['b'].k == 'local' and s.defs.get(x['a'].name, {}).get('op') == 'ptrtoint' and s.defs.get(x['b'].name, {}).get('op') == 'ptrtoint' and x['ty'].bits == 64:
            pa = s.defs[x['a'].name]['a']; pb = s.defs[x['b'].name]['a']
            L.append('  %s = (uint64_t)((char*)%s - (char*)%s);' % (d, s.val(pa), s.val(pb)))
        elif op in BINOPS or op in ('fadd', 'fsub', 'fmul', 'fdiv', 'frem'):
            L.append('  %s = %s;' % (d, s.binop(op, x['ty'], s.val(x['a']), s.val(x['b']))))
        elif op == 'fneg':
            L.append('  %s = -%s;' % (d, s.val(x['a'])))
        elif op == 'icmp':
            L.append('  %s = %s;' % (d, s.icmp(x['pred'], x['opty'], s.val(x['a']), s.val(x['b']))))
        elif op == 'fcmp':
            L.append('  %s = %s;' % (d, s.fcmp(x['pred'], s.val(x['a']), s.val(x['b']))))
        elif op == 'alloca':
            if x['n'] is not None and not (x['n'].k == 'int' and x['n'].val == 1):
                L.append('  %s = (%s)malloc(sizeof(%s) * %s); __CPROVER_assume(%s != 0);' % (d, E.ctype(x['ty']), E.ctype(x['aty']), s.val(x['n']), d))
            else:
                L.append('  %s %s_obj; %s = &%s_obj;' % (E.ctype(x['aty']), d, d, d))
        elif op == 'load':
            L.append('  %s = *%s;' % (d, s.val(x['a'])))
        elif op == 'store':
            L.append('  *%s = %s;' % (s.val(x['a']), s.val(x['v'])))
        elif op == 'getelementptr':
            L.append('  %s = %s;' % (d, s.gep(x['srcty'], x['base'], x['idx'])))
        elif op in ('bitcast', 'inttoptr', 'addrspacecast'):
            st = x['a'].ty; dt = x['ty']
            if op == 'bitcast' and st.k != 'ptr':
                # scalar reinterpret (e.g. double <-> i64)
                L.append('  { %s __s = %s; memcpy(&%s, &__s, sizeof(%s)); }' % (E.ctype(st), s.val(x['a']), d, d))
            elif op == 'inttoptr':
                L.append('  %s = (%s)(uintptr_t)%s;' % (d, E.ctype(dt), s.val(x['a'])))
            else:
                L.append('  %s = (%s)%s;' % (d, E.ctype(dt), s.val(x['a'])))
        elif op == 'ptrtoint':
            L.append('  %s = (%s)(uintptr_t)%s;' % (d, E.ctype(x['ty']), s.val(x['a'])))
        elif op == 'trunc':
            if x['ty'].bits == 1: L.append('  %s = (unsigned char)(%s & 1);' % (d, s.val(x['a'])))
            else: L.append('  %s = (%s)%s;' % (d, E.ctype(x['ty']), s.val(x['a'])))
        elif op == 'zext':
            L.append('  %s = (%s)%s;' % (d, E.ctype(x['ty']), s.val(x['a'])))
        elif op == 'sext':
            w = x['a'].ty.bits; dw = x['ty'].bits
            if w == 1: L.append('  %s = (%s)(-(int%d_t)%s);' % (d, E.ctype(x['ty']), max(dw, 8) if dw in (8,16,32,64) else 64, s.val(x['a'])))
            else: L.append('  %s = (%s)(int%d_t)(int%d_t)%s;' % (d, E.ctype(x['ty']), dw, w, s.val(x['a'])))
        elif op in ('fptrunc', 'fpext'):
            L.append('  %s = (%s)%s;' % (d, E.ctype(x['ty']), s.val(x['a'])))
        elif op in ('fptoui',):
            L.append('  %s = (%s)%s;' % (d, E.ctype(x['ty']), s.val(x['a'])))
        elif op == 'fptosi':
            L.append('  %s = (%s)(int%d_t)%s;' % (d, E.ctype(x['ty']), x['ty'].bits, s.val(x['a'])))
        elif op == 'uitofp':
            L.append('  %s = (%s)%s;' % (d, E.ctype(x['ty']), s.val(x['a'])))
        elif op == 'sitofp':
            w = x['a'].ty.bits
            L.append('  %s = (%s)(int%d_t)%s;' % (d, E.ctype(x['ty']), w, s.val(x['a'])))
        elif op == 'select':
            L.append('  %s = %s ? %s : %s;' % (d, s.val(x['c']), s.val(x['a']), s.val(x['b'])))
        elif op == 'phi':
            pass
        elif op == 'br':
            if x['c'] is None: L.append('  ' + s.goto(x['targets'][0]))
            else: L.append('  if (%s) { %s } else { %s }' % (s.val(x['c']), s.goto(x['targets'][0]), s.goto(x['targets'][1])))
        elif op == 'switch':
            v = s.val(x['v'])
            for cv, lab in x['cases']:
                L.append('  if (%s == %s) { %s }' % (v, s.val(cv), s.goto(lab)))
            L.append('  ' + s.goto(x['default']))
        elif op == 'ret':
            L.append('  return%s;' % ('' if x['v'] is None else ' ' + s.val(x['v'])))
        elif op in ('call', 'invoke'):
            s.call(x)
        elif op == 'landingpad':
            # selector computation
            L.append('  { int __sel = 0; ')
            conds = []
            for kind, tv in x['clauses']:
                if kind != 'catch': continue
                if tv.k == 'null':
                    L.append('    if (!__sel) __sel = -1;')
                else:
                    ti = tinfo_name(tv)
                    L.append('    if (!__sel && __exc_matches(__exc_tinfo, (void*)&%s)) __sel = __exc_typeid((void*)&%s);' % (E.cname(ti), E.cname(ti)))
            if not x['cleanup']:
                L.append('    if (!__sel) { %s }' % s.ret_default())
            L.append('    __exc_active = 0; %s.f0 = (uint8_t*)__exc_ptr; %s.f1 = (uint32_t)__sel; }' % (d, d))
        elif op == 'resume':
            L.append('  __exc_active = 1; %s' % s.ret_default())
        elif op == 'unreachable':
            L.append('  __CPROVER_assert(0, "llvm unreachable reached"); __CPROVER_assume(0);')
        elif op == 'extractvalue':
            acc = s.val(x['a']); t = x['a'].ty
            for i in x['idx']:
                r = E.resolve(t) if t.k == 'named' else t
                if r.k == 'struct': acc += '.f%d' % i; t = r.fields[i]
                else: acc += '.a[%d]' % i; t = r.elem
            L.append('  %s = %s;' % (d, acc))
        elif op == 'insertvalue':
            acc = d; t = x['a'].ty
            for i in x['idx']:
                r = E.resolve(t) if t.k == 'named' else t
                if r.k == 'struct': acc += '.f%d' % i; t = r.fields[i]
                else: acc += '.a[%d]' % i; t = r.elem
            if x['a'].k in ('undef',): L.append('  %s = %s;' % (acc, s.val(x['v'])))
            else: L.append('  %s = %s; %s = %s;' % (d, s.val(x['a']), acc, s.val(x['v'])))
        elif op == 'freeze':
            L.append('  %s = %s;' % (d, s.val(x['a'])))
        elif op == 'atomicrmw':
            a = s.val(x['a']); v = s.val(x['v'])
            o = {'add': '+', 'sub': '-', 'and': '&', 'or': '|', 'xor': '^'}.get(x['rop'])
            if x['rop'] == 'xchg': L.append('  %s = *%s; *%s = %s;' % (d, a, a, v))
            elif o: L.append('  %s = *%s; *%s = (%s)(%s %s %s);' % (d, a, a, E.ctype(x['ty']), d, o, v))
            else: raise Exception('atomicrmw ' + x['rop'])
        elif op == 'cmpxchg':
            a = s.val(x['a'])
            L.append('  %s.f0 = *%s; %s.f1 = (%s.f0 == %s); if (%s.f1) *%s = %s;' % (d, a, d, d, s.val(x['c']), d, a, s.val(x['n'])))
        elif op == 'fence':
            pass
        else:
            raise Exception('emit ' + op)

    def call(s, x):
        E = s.E; L = s.lines
        d = s.lname(x['dst']) if x['dst'] is not None else None
        cal = x['callee']
        args = x['args']
        name = cal.name if cal.k == 'global' else None
        post = None
        if name and name.startswith('llvm.'):
            r = s.intrinsic(name, x, d)
            if r is not None:
                if r: L.append('  ' + r)
                if x['op'] == 'invoke': L.append('  ' + s.goto(x['normal']))
                return
        if name is not None:
            fn = s.m.funcs.get(name)
            callee = E.cname(name)
            ptypes = [t for t, n in fn['params']] if fn else [a.ty for a in args]
            ext = fn is None or fn['blocks'] is None
            al = []
            for i, a in enumerate(args):
                e = s.val(a)
                if ext and a.ty.k == 'ptr': e = '(void*)' + e
                elif i < len(ptypes) and E.ctype(ptypes[i]) != E.ctype(a.ty): e = '(%s)%s' % (E.ctype(ptypes[i]), e)
                al.append(e)
            ce = '%s(%s)' % (callee, ', '.join(al))
            if ext and x['ty'].k == 'ptr': ce = '(%s)%s' % (E.ctype(x['ty']), ce)
        else:
            # indirect
            ft = x['fty'] or T('func', ret=x['ty'], params=[a.ty for a in args], vararg=False)
            fpt = E.fptype(ft)
            ce = '((%s)%s)(%s)' % (fpt, s.val(cal), ', '.join(s.val(a) for a in args))
        if d is not None and x['ty'].k != 'void': L.append('  %s = %s;' % (d, ce))
        else: L.append('  %s;' % ce)
        nounwind = 'nounwind' in ' '.join(s.m.attrgroups.get(a, a) for a in x['cattrs'])
        if name and s.m.funcs.get(name) is not None:
            fa = s.m.funcs[name]['attrs']
            for g in re.findall(r'#\d+', fa):
                if 'nounwind' in s.m.attrgroups.get(g, ''): nounwind = True
        if name in ('__cxa_throw', '__cxa_rethrow'): nounwind = False
        if x['op'] == 'invoke':
            L.append('  if (__exc_active) { %s } %s' % (s.goto(x['unwind']), s.goto(x['normal'])))
        elif not nounwind:
            L.append('  if (__exc_active) { %s }' % s.ret_default())

    def intrinsic(s, name, x, d):
        E = s.E; a = x['args']
        v = lambda i: s.val(a[i])
        if name.startswith('llvm.lifetime.') or name.startswith('llvm.dbg.') or name.startswith('llvm.experimental.noalias') or name.startswith('llvm.assume') or name.startswith('llvm.invariant') or name in ('llvm.stackrestore',) :
            return ''
        if name == 'llvm.stacksave': return '%s = (uint8_t*)0;' % d
        if name.startswith('llvm.memcpy'): return 'if (%s) memcpy(%s, %s, %s);' % (v(2), v(0), v(1), v(2))
        if name.startswith('llvm.memmove'): return 'if (%s) memmove(%s, %s, %s);' % (v(2), v(0), v(1), v(2))
        if name.startswith('llvm.memset'): return 'if (%s) memset(%s, %s, %s);' % (v(2), v(0), v(1), v(2))
        if name == 'llvm.bswap.i32': return '%s = __builtin_bswap32(%s);' % (d, v(0))
        if name == 'llvm.bswap.i64': return '%s = __builtin_bswap64(%s);' % (d, v(0))
        if name == 'llvm.bswap.i16': return '%s = (uint16_t)((%s << 8) | (%s >> 8));' % (d, v(0), v(0))
        if name.startswith('llvm.fabs'): return '%s = %s(%s);' % (d, 'fabs' if name.endswith('f64') else 'fabsf', v(0))
        if name.startswith('llvm.sqrt'): return '%s = %s(%s);' % (d, 'sqrt' if name.endswith('f64') else 'sqrtf', v(0))
        if name.startswith('llvm.fmuladd') or name.startswith('llvm.fma.'): return '%s = %s * %s + %s;' % (d, v(0), v(1), v(2))
        for fn in ('floor', 'ceil', 'trunc', 'round', 'exp', 'log', 'log10', 'log2', 'sin', 'cos', 'pow', 'copysign', 'rint', 'nearbyint', 'exp2'):
            if name.startswith('llvm.%s.f' % fn):
                suf = '' if name.endswith('f64') else 'f'
                return '%s = %s%s(%s);' % (d, fn, suf, ', '.join(s.val(z) for z in a))
        if name.startswith('llvm.minnum') or name.startswith('llvm.maxnum'):
            return '%s = %s(%s, %s);' % (d, ('fmin' if 'min' in name else 'fmax') + ('' if name.endswith('f64') else 'f'), v(0), v(1))
        mm = re.match(r'llvm\.(smax|smin|umax|umin)\.i(\d+)', name)
        if mm:
            w = int(mm.group(2)); k = mm.group(1)
            c = s.icmp({'smax': 'sgt', 'smin': 'slt', 'umax': 'ugt', 'umin': 'ult'}[k], a[0].ty, v(0), v(1))
            return '%s = %s ? %s : %s;' % (d, c, v(0), v(1))
        mm = re.match(r'llvm\.abs\.i(\d+)', name)
        if mm:
            w = int(mm.group(1))
            return '%s = ((int%d_t)%s < 0) ? (%s)(0 - %s) : %s;' % (d, w, v(0), E.ctype(a[0].ty), v(0), v(0))
        mm = re.match(r'llvm\.(u|s)(add|sub|mul)\.with\.overflow\.i(\d+)', name)
        if mm:
            sg, o, w = mm.group(1), mm.group(2), int(mm.group(3))
            ct = E.ctype(a[0].ty)
            if sg == 'u':
                if o == 'add': return '%s.f0 = (%s)(%s + %s); %s.f1 = %s.f0 < %s;' % (d, ct, v(0), v(1), d, d, v(0))
                if o == 'sub': return '%s.f0 = (%s)(%s - %s); %s.f1 = %s < %s;' % (d, ct, v(0), v(1), d, v(0), v(1))
                if o == 'mul':
                    return '%s.f0 = (%s)(%s * %s); %s.f1 = (%s != 0 && %s.f0 / %s != %s);' % (d, ct, v(0), v(1), d, v(0), d, v(0), v(1))
            else:
                big = 'signed __CPROVER_bitvector[%d]' % (2 * w)
                oo = {'add': '+', 'sub': '-', 'mul': '*'}[o]
                return '{ %s __r = (%s)(int%d_t)%s %s (%s)(int%d_t)%s; %s.f0 = (%s)__r; %s.f1 = (__r != (%s)(int%d_t)%s.f0); }' % (big, big, w, v(0), oo, big, w, v(1), d, ct, d, big, w, d)
        if name.startswith('llvm.expect'): return '%s = %s;' % (d, v(0))
        mm = re.match(r'llvm\.ctlz\.i(\d+)', name)
        if mm:
            w = int(mm.group(1)); return '%s = (%s == 0) ? %d : (%s)__builtin_clz%s(%s)%s;' % (d, v(0), w, E.ctype(a[0].ty), 'll' if w == 64 else '', v(0), '' if w in (32, 64) else ' - %d' % (32 - w))
        mm = re.match(r'llvm\.cttz\.i(\d+)', name)
        if mm:
            w = int(mm.group(1)); return '%s = (%s == 0) ? %d : (%s)__builtin_ctz%s(%s);' % (d, v(0), w, E.ctype(a[0].ty), 'll' if w == 64 else '', v(0))
        mm = re.match(r'llvm\.ctpop\.i(\d+)', name)
        if mm:
            w = int(mm.group(1)); return '%s = (%s)__builtin_popcount%s(%s);' % (d, E.ctype(a[0].ty), 'll' if w == 64 else '', v(0))
        if name == 'llvm.trap': return '__CPROVER_assert(0, "llvm.trap"); __CPROVER_assume(0);'
        if name == 'llvm.eh.typeid.for': return '%s = (uint32_t)__exc_typeid((void*)%s);' % (d, v(0))
        if name.startswith('llvm.objectsize'): return '%s = (%s)-1;' % (d, E.ctype(x['ty']))
        if name.startswith('llvm.is.constant'): return '%s = 0;' % d
        if name.startswith('llvm.fshl.i') or name.startswith('llvm.fshr.i'):
            w = int(name.split('.i')[-1]); ct = E.ctype(a[0].ty)
            if 'fshl' in name: return '{ unsigned __k = %s %% %d; %s = __k ? (%s)((%s << __k) | (%s >> (%d - __k))) : %s; }' % (v(2), w, d, ct, v(0), v(1), w, v(0))
            return '{ unsigned __k = %s %% %d; %s = __k ? (%s)((%s << (%d - __k)) | (%s >> __k)) : %s; }' % (v(2), w, d, ct, v(0), w, v(1), v(1))
        raise Exception('intrinsic ' + name)

BINOPS = {'add','sub','mul','udiv','sdiv','urem','srem','shl','lshr','ashr','and','or','xor'}

def tinfo_name(tv):
    v = tv
    while v.k == 'cexpr': v = v.ops[0]
    assert v.k == 'global', v.k
    return v.name

def globref(E, name):
    m = E.m
    if name in m.funcs: return E.cname(name)
    return '(&%s)' % E.cname(name)

def emit_module(m, entry_names):
    E = Emit(m)
    out = []
    # reserve names of functions/globals
    for n in m.forder: E.cname(n)
    for n in m.gorder: E.cname(n)
    # function bodies first (collect types), then assemble
    protos = []; bodies = []
    fe0 = FuncEmit(E, dict(ret=VOID, params=[], blocks=[]))
    def proto(f, ext):
        ps = []
        for i, (t, n) in enumerate(f['params']):
            ct = 'void*' if (ext and t.k == 'ptr') else E.ctype(t)
            ps.append(ct)
        rt = 'void*' if (ext and f['ret'].k == 'ptr') else E.ctype(f['ret'])
        return rt, ps
    for n in m.forder:
        f = m.funcs[n]
        if n.startswith('llvm.'): continue
        ext = f['blocks'] is None
        rt, ps = proto(f, ext)
        a = ', '.join(ps) if ps else ('void' if not f['vararg'] else '')
        if f['vararg']: a = (a + ', ...') if a else ''
        if n in BUILTIN_DECLS: continue
        protos.append('%s %s(%s);' % (rt, E.cname(n), a))
    for n in m.forder:
        f = m.funcs[n]
        if f['blocks'] is None: continue
        fe = FuncEmit(E, f)
        body = fe.emit()
        rt, ps = proto(f, False)
        pl = ', '.join('%s %s' % (ps[i], fe.lname(fe.params[i][1])) for i in range(len(ps))) or 'void'
        bodies.append('%s %s(%s) {' % (rt, E.cname(n), pl))
        bodies.extend(body)
        bodies.append('  %s' % fe.ret_default() if True else '')
        bodies.append('}')
    # globals
    gdecl = []; gdef = []
    for n in m.gorder:
        g = m.globals[n]
        if n.startswith('llvm.'):
            if n == 'llvm.global_ctors' and g['init'] is not None and g['init'].k == 'agg':
                for e in g['init'].elems:
                    m.ctors.append((e.elems[0].val, e.elems[1].name))
            continue
        ct = E.ctype(g['ty'])
        if ct == 'void': ct = 'char'
        if g['init'] is None:
            gdecl.append('extern %s %s;' % (ct, E.cname(n)))
        else:
            gdecl.append('%s%s %s;' % ('static ' if g['linkage'] in ('internal', 'private') else '', ct, E.cname(n)))
            init = g['init']
            gdef.append('%s%s %s = %s;' % ('static ' if g['linkage'] in ('internal', 'private') else '', ct, E.cname(n), fe0.agginit(init) if init.k in ('agg', 'cstr', 'zero', 'undef') and ginit_is_agg(E, g['ty']) else fe0.val(init)))
    fwd, fpl, sbody = E.emit_typedefs()
    out.append('#include <stdint.h>\n#include <stddef.h>\n#include <string.h>\n#include <stdlib.h>\n#include <math.h>')
    out.append(RUNTIME_DECLS)
    out += fwd + fpl + sbody
    out.append('/* globals */'); out += gdecl
    out.append('/* prototypes */'); out += protos
    out += gdef
    out.append('/* functions */'); out += bodies
    # global init
    out.append('void __verif_global_init(void) {')
    for pr, fn in sorted(m.ctors, key=lambda z: z[0]):
        out.append('  %s();' % E.cname(fn))
    out.append('}')
    # type info hierarchy
    out.append(emit_typeinfo(E))
    return '\n'.join(out) + '\n'

def ginit_is_agg(E, t):
    r = E.resolve(t) if t.k == 'named' else t
    return r.k in ('struct', 'array')

STD_EXC_BASE = {
 '_ZTISt13runtime_error': '_ZTISt9exception', '_ZTISt11logic_error': '_ZTISt9exception',
 '_ZTISt16invalid_argument': '_ZTISt11logic_error', '_ZTISt12out_of_range': '_ZTISt11logic_error',
 '_ZTISt12length_error': '_ZTISt11logic_error', '_ZTISt12domain_error': '_ZTISt11logic_error',
 '_ZTISt11range_error': '_ZTISt13runtime_error', '_ZTISt14overflow_error': '_ZTISt13runtime_error',
 '_ZTISt15underflow_error': '_ZTISt13runtime_error', '_ZTISt9bad_alloc': '_ZTISt9exception',
 '_ZTISt8bad_cast': '_ZTISt9exception', '_ZTISt17bad_function_call': '_ZTISt9exception',
 '_ZTISt20bad_array_new_length': '_ZTISt9bad_alloc', '_ZTISt9exception': None,
 '_ZTINSt8ios_base7failureB5cxx11E': '_ZTISt12system_error', '_ZTISt12system_error': '_ZTISt13runtime_error',
 '_ZTINSt10filesystem7__cxx1116filesystem_errorE': '_ZTISt12system_error', '_ZTISt18bad_variant_access': '_ZTISt9exception', '_ZTISt19bad_optional_access': '_ZTISt9exception',
}

def emit_typeinfo(E):
    m = E.m
    rows = []
    for n in m.gorder:
        if not n.startswith('_ZTI'): continue
        g = m.globals[n]
        base = None
        if g['init'] is not None and g['init'].k == 'agg' and len(g['init'].elems) >= 3:
            b = g['init'].elems[2]
            while b.k == 'cexpr': b = b.ops[0]
            if b.k == 'global': base = b.name
        elif n in STD_EXC_BASE: base = STD_EXC_BASE[n]
        rows.append((n, base))
    known = {n for n, b in rows}
    L = ['int __exc_typeid(void* ti) {']
    for i, (n, b) in enumerate(rows): L.append('  if (ti == (void*)&%s) return %d;' % (E.cname(n), i + 1))
    L.append('  return 1000; }')
    L.append('static void* __exc_base(void* ti) {')
    for n, b in rows:
        if b and b in known: L.append('  if (ti == (void*)&%s) return (void*)&%s;' % (E.cname(n), E.cname(b)))
    L.append('  return 0; }')
    L.append('int __exc_matches(void* thrown, void* want) { for (int i = 0; i < 6 && thrown; i++) { if (thrown == want) return 1; thrown = __exc_base(thrown); } return 0; }')
    return '\n'.join(L)

BUILTIN_DECLS = {'malloc', 'free', 'memcpy', 'memmove', 'memset', 'strlen', 'memcmp', 'abort', 'exit', 'fabs', 'sqrt', 'pow', 'log', 'exp', 'strtol', 'strtod', 'bcmp', 'memchr', 'strcmp',
                 '__CPROVER_assume', '__CPROVER_assert'}

RUNTIME_DECLS = r'''
extern int __exc_active; extern void* __exc_ptr; extern void* __exc_tinfo;
int __exc_typeid(void*); int __exc_matches(void*, void*);
'''

if __name__ == '__main__':
    src = open(sys.argv[1]).read()
    m = parse_module(src)
    c = emit_module(m, sys.argv[3:])
    open(sys.argv[2], 'w').write(c)
    print('functions: %d defined, %d declared; globals %d' % (sum(1 for f in m.funcs.values() if f['blocks'] is not None), sum(1 for f in m.funcs.values() if f['blocks'] is None), len(m.globals)))
