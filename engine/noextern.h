#include <bits/c++config.h>
#undef _GLIBCXX_EXTERN_TEMPLATE
#define _GLIBCXX_EXTERN_TEMPLATE -1
