#!/usr/bin/env python3
"""Prototype: path-forking symbolic executor for LLVM-14 IR (typed pointers) on z3.
usage: python3-vt llsym.py mod.ll entry [--fp real|ieee] [--maxsteps N]
"""
import sys, os, time, copy, struct, re
sys.setrecursionlimit(10000)
import z3
from ir2c import parse_module, T, V, PTR, I1, I8, I32, I64

class Ptr:
    __slots__ = ('obj', 'off')
    def __init__(s, obj, off): s.obj = obj; s.off = off
    def __repr__(s): return 'Ptr(%s,%s)' % (s.obj, s.off)

NULL = Ptr(0, 0)
class Obj:
    __slots__ = ('size', 'cells', 'name', 'const', 'freed', 'kind', 'zf')
    def __init__(s, size, name='', const=False, kind='heap'):
        s.size = size; s.cells = {}; s.name = name; s.const = const; s.freed = False; s.kind = kind; s.zf = False
    def clone(s):
        o = Obj(s.size, s.name, s.const, s.kind); o.cells = dict(s.cells); o.freed = s.freed; o.zf = s.zf; return o

class Frame:
    __slots__ = ('fn', 'lab', 'idx', 'prev', 'loc', 'ret_to', 'allocas', 'loopcnt')
    def __init__(s, fn): s.fn = fn; s.lab = None; s.idx = 0; s.prev = None; s.loc = {}; s.ret_to = None; s.allocas = []; s.loopcnt = {}

class State:
    def __init__(s): s.frames = []; s.objs = {}; s.pc = []; s.nextobj = 1; s.inputs = []; s.steps = 0; s.exc = None; s.model = None; s.obs = []; s.mfs = {}; s.sbind = {}
    def fork(s):
        n = State(); n.mf = getattr(s, 'mf', None); n.model = None; n.obs = list(s.obs); n.mfs = {k: dict(v, data=list(v['data']), ios=list(v['ios'])) for k, v in s.mfs.items()}; n.sbind = s.sbind
        if hasattr(s, 'errno_obj'): n.errno_obj = s.errno_obj
        n.objs = {k: v for k, v in s.objs.items()}   # copy-on-write at object level
        n.cow = set(n.objs.keys())
        n.relaxed = getattr(s, 'relaxed', False); n.mfnames = getattr(s, 'mfnames', {}); n.exc_vt = getattr(s, 'exc_vt', None); n.exc_msg = getattr(s, 'exc_msg', None); n.iosreg = getattr(s, 'iosreg', {}); n.fake_ctype = getattr(s, 'fake_ctype', None); n.tm_obj = getattr(s, 'tm_obj', None); n.pc = list(s.pc); n.nextobj = s.nextobj; n.inputs = list(s.inputs); n.steps = s.steps; n.exc = s.exc
        for f in s.frames:
            g = Frame(f.fn); g.lab = f.lab; g.idx = f.idx; g.prev = f.prev; g.loc = dict(f.loc); g.ret_to = f.ret_to; g.allocas = list(f.allocas); g.loopcnt = dict(f.loopcnt)
            n.frames.append(g)
        s.cow = set(s.objs.keys())
        return n

class Violation(Exception):
    def __init__(s, kind, msg, st, model=None): s.kind = kind; s.msg = msg; s.st = st; s.model = model

def isc(v): return isinstance(v, int) and not isinstance(v, bool)

class Exec:
    def __init__(s, m, fpmode='real', maxsteps=200000, loopmax=64):
        s.m = m; s.fpmode = fpmode; s.maxsteps = maxsteps; s.loopmax = loopmax
        s.solver = z3.Solver(); s.solver.set('timeout', 60000); s.asserted = []
        s.stats = dict(paths=0, queries=0, solver_s=0.0, forks=0, steps=0, bound_hits=0, funcs=set(), cache_hits=0, max_query_s=0.0, assert_sites={}, assert_checks=0, stubs=set())
        s.layout_cache = {}
        s.gobj = {}   # global name -> obj id (in template state)
        s.faddr = {}; s.fbyaddr = {}
        s.uf = {}
        s.nondet_n = 0
        for i, n in enumerate(m.forder):
            s.faddr[n] = 0x7000000000 + 16 * i; s.fbyaddr[0x7000000000 + 16 * i] = n
        for i, n in enumerate(('__verif_exc_what', '__verif_exc_dtor')):
            s.faddr[n] = 0x7f00000000 + 16 * i; s.fbyaddr[0x7f00000000 + 16 * i] = n
        s.blocks = {}
        for n, f in m.funcs.items():
            if f['blocks'] is not None:
                s.blocks[n] = {lab: ins for lab, ins in f['blocks']}

    # ------------------------------------------------ layout
    def res(s, t):
        while t.k == 'named': t = s.m.named[t.name]
        return t
    def sizeof(s, t): return s.layout(t)[0]
    def layout(s, t):
        k = t.key()
        if k in s.layout_cache: return s.layout_cache[k]
        r = s.res(t)
        if r.k == 'int':
            b = (r.bits + 7) // 8; sz = 1
            while sz < b: sz *= 2
            out = (sz, min(sz, 8), None)
        elif r.k == 'float': out = (4, 4, None)
        elif r.k == 'double': out = (8, 8, None)
        elif r.k == 'x86_fp80': out = (16, 16, None)
        elif r.k == 'ptr': out = (8, 8, None)
        elif r.k == 'array':
            es, ea, _ = s.layout(r.elem); out = (es * r.n, ea, None)
        elif r.k == 'struct':
            off = 0; al = 1; offs = []
            for f in r.fields:
                fs, fa, _ = s.layout(f)
                if r.packed: fa = 1
                off = (off + fa - 1) // fa * fa; offs.append(off); off += fs; al = max(al, fa)
            off = (off + al - 1) // al * al
            out = (off, al, offs)
        elif r.k == 'opaque': out = (0, 1, None)
        else: raise Exception('layout ' + r.k)
        s.layout_cache[k] = out
        return out

    # ------------------------------------------------ values
    def bv(s, v, w):
        if isc(v): return z3.BitVecVal(v & ((1 << w) - 1), w)
        if isinstance(v, bool): return z3.BitVecVal(1 if v else 0, w)
        if z3.is_bool(v): return z3.If(v, z3.BitVecVal(1, w), z3.BitVecVal(0, w))
        return v
    def tobool(s, v):
        if isinstance(v, bool): return v
        if isc(v): return bool(v & 1)
        if z3.is_bool(v): return v
        return v == z3.BitVecVal(1, v.size())
    def ptr_as_int(s, p):
        if p.obj == -1: return p.off                 # function address (member-function pointers carry it as an integer)
        base = p.obj * 0x100000
        if isc(p.off): return base + p.off
        return z3.BitVecVal(base, 64) + p.off
    def int_as_ptr(s, v):
        if isc(v):
            if v == 0: return NULL
            if v in s.fbyaddr: return Ptr(-1, v)
            return Ptr(v // 0x100000, v % 0x100000)
        raise Violation('unsupported', 'inttoptr of symbolic value', None)

    def const(s, st, v):
        k = v.k
        t = s.res(v.ty) if v.ty is not None else None
        if k == 'int': return (v.val & ((1 << t.bits) - 1)) if t.bits > 1 else bool(v.val & 1)
        if k == 'float': return s.fpconst(v.val, t)
        if k == 'null': return NULL
        if k in ('undef', 'zero'):
            if t.k == 'int': return 0 if t.bits > 1 else False
            if t.k == 'ptr': return NULL
            if t.k in ('double', 'float'): return s.fpconst(0.0, t)
            return ('agg', [s.const(st, V(k, f)) for f in (t.fields if t.k == 'struct' else [t.elem] * t.n)])
        if k == 'global':
            if v.name in s.m.funcs: return Ptr(-1, s.faddr[v.name])
            return Ptr(s.gobj[v.name], 0)
        if k == 'cexpr':
            if v.op == 'getelementptr':
                base = s.const(st, v.ops[0]); return s.gep(st, v.srcty, base, [s.const(st, o) for o in v.ops[1:]])
            if v.op in ('bitcast', 'addrspacecast'): return s.const(st, v.ops[0])
            if v.op == 'ptrtoint': return s.ptr_as_int(s.const(st, v.ops[0]))
            if v.op == 'inttoptr': return s.int_as_ptr(s.const(st, v.ops[0]))
            raise Exception('cexpr ' + v.op)
        if k == 'agg': return ('agg', [s.const(st, e) for e in v.elems])
        if k == 'cstr': return ('agg', list(v.val))
        raise Exception('const ' + k)

    def fpconst(s, x, t):
        if s.fpmode == 'real':
            import fractions, math
            if math.isinf(x) or math.isnan(x): return NonFinite(x)     # only comparisons / isfinite tests are defined on these
            fr = fractions.Fraction(x)
            return z3.RealVal(fr)
        return z3.FPVal(x, z3.Float64() if t.k == 'double' else z3.Float32())

    def val(s, st, v):
        if v.k == 'local': return st.frames[-1].loc[v.name]
        return s.const(st, v)

    # ------------------------------------------------ memory
    def wobj(s, st, oid):
        o = st.objs.get(oid)
        if o is None: raise Violation('memory', 'access to invalid object %s' % oid, st)
        if oid in getattr(st, 'cow', ()):
            o = o.clone(); st.objs[oid] = o; st.cow.discard(oid)
        return o
    def new_obj(s, st, size, name='', kind='heap'):
        oid = st.nextobj; st.nextobj += 1
        st.objs[oid] = Obj(size, name, kind=kind)
        return oid
    def check_access(s, st, p, size, what):
        if p.obj == 0: raise Violation('memory', 'NULL dereference (%s)' % what, st)
        o = st.objs.get(p.obj)
        if o is None or p.obj < 0: raise Violation('memory', 'invalid pointer dereference (%s)' % what, st)
        if o.freed: raise Violation('memory', 'use after free (%s of %s)' % (what, o.name), st)
        if not isc(o.size):
            # object of symbolic size (allocation sized by an untrusted count): the access must fit for every size the path allows
            off = s.bv(p.off, 64)
            bad = z3.Or(z3.UGT(off + z3.BitVecVal(size, 64), o.size), z3.ULT(off + z3.BitVecVal(size, 64), off))
            mdl = s.sat(st, bad)
            if mdl is not None:
                raise Violation('memory', 'out-of-bounds %s of %d bytes in object %s whose size is symbolic' % (what, size, o.name), st, mdl)
            return o
        if isc(p.off):
            if p.off < 0 or p.off + size > o.size:
                raise Violation('memory', 'out-of-bounds %s of %d bytes at offset %d in object %s of size %d' % (what, size, p.off, o.name, o.size), st)
        else:
            bad = z3.Or(z3.UGT(p.off, o.size - size), z3.BitVecVal(o.size, 64) < size) if o.size >= size else z3.BoolVal(True)
            mdl = s.sat(st, bad)
            if mdl is not None:
                raise Violation('memory', 'out-of-bounds %s with symbolic offset in object %s of size %d' % (what, o.name, o.size), st, mdl)
        return o

    def store_val(s, st, p, t, v):
        t = s.res(t)
        if isinstance(v, tuple) and v[0] == 'agg':
            if t.k == 'struct':
                offs = s.layout(t)[2]
                for f, o, e in zip(t.fields, offs, v[1]): s.store_val(st, Ptr(p.obj, p.off + o), f, e)
            else:
                es = s.sizeof(t.elem)
                for i, e in enumerate(v[1]): s.store_val(st, Ptr(p.obj, p.off + i * es), t.elem, e)
            return
        size = s.sizeof(t)
        s.check_access(st, p, size, 'store')
        o = s.wobj(st, p.obj)
        if o.const: raise Violation('memory', 'store to constant object ' + o.name, st)
        if isc(p.off):
            s.kill(o, p.off, size)
            o.cells[p.off] = (size, v)
        else:
            # symbolic offset: conditional update of the cells at the feasible offsets
            for off in s.feasible_values(st, p.off, 256):
                old = s.load_cell(st, o, off, size, t)
                cond = p.off == z3.BitVecVal(off, 64)
                s.kill(o, off, size)
                o.cells[off] = (size, s.ite(cond, v, old, t))

    def kill(s, o, off, size):
        # remove/split overlapping cells
        for co in [c for c in o.cells if c < off + size and c + o.cells[c][0] > off and not (c == off and o.cells[c][0] == size)]:
            csz, cv = o.cells.pop(co)
            if co >= off and co + csz <= off + size: continue   # entirely overwritten
            # split into bytes
            bv = s.cell_bits(cv, csz)
            for i in range(csz):
                b = (bv >> (8 * i)) & 0xff if isc(bv) else z3.simplify(z3.Extract(8 * i + 7, 8 * i, bv))
                if not (co + i >= off and co + i < off + size): o.cells[co + i] = (1, b)

    def cell_bits(s, v, size):
        if isinstance(v, Ptr): v = s.ptr_as_int(v)
        if isinstance(v, bool): v = int(v)
        if isc(v): return v
        if z3.is_bool(v): return s.bv(v, size * 8)
        if z3.is_fp(v): return z3.fpToIEEEBV(v)
        if z3.is_real(v): raise Violation('unsupported', 'byte-level access to a real-valued float', None)
        return v

    def load_cell(s, st, o, off, size, t):
        c = o.cells.get(off)
        if c is not None and c[0] == size:
            return s.coerce(c[1], t)
        # assemble from bytes
        parts = []
        for i in range(size):
            found = None
            for co, (csz, cv) in o.cells.items():
                if co <= off + i < co + csz:
                    bits = s.cell_bits(cv, csz); k = off + i - co
                    found = ((bits >> (8 * k)) & 0xff) if isc(bits) else z3.Extract(8 * k + 7, 8 * k, bits)
                    break
            if found is None:
                if o.kind == 'zero' or o.zf: found = 0
                else:
                    # uninitialised read: fresh unconstrained byte
                    found = z3.BitVec('uninit_%d_%d_%d' % (id(o) & 0xffff, off + i, s.stats['steps']), 8)
            parts.append(found)
        if all(isc(x) for x in parts):
            v = 0
            for i, x in enumerate(parts): v |= x << (8 * i)
        else:
            v = z3.simplify(z3.Concat(*[s.bv(x, 8) for x in reversed(parts)])) if size > 1 else s.bv(parts[0], 8)
        return s.coerce(v, t)

    def coerce(s, v, t):
        t = s.res(t)
        if t.k == 'ptr':
            if isinstance(v, Ptr): return v
            return s.int_as_ptr(v)
        if t.k == 'int':
            if isinstance(v, Ptr): v = s.ptr_as_int(v)
            if t.bits == 1: return s.tobool(v) if not isinstance(v, bool) else v
            if isinstance(v, bool): return int(v)
            if z3.is_bool(v): return s.bv(v, t.bits)
            if z3.is_fp(v): return z3.fpToIEEEBV(v)
            if isinstance(v, NonFinite) or (not isc(v) and z3.is_real(v)): return v     # real-mode double moved through an integer register (struct copies): opaque pass-through
            if not isc(v) and v.size() != t.bits: return z3.Extract(t.bits - 1, 0, v)
            if isc(v): return v & ((1 << t.bits) - 1)
            return v
        if t.k in ('double', 'float'):
            if z3.is_fp(v) or z3.is_real(v): return v
            if s.fpmode == 'real':
                if isc(v):
                    x = struct.unpack('<d', struct.pack('<Q', v))[0] if t.k == 'double' else struct.unpack('<f', struct.pack('<I', v))[0]
                    return s.fpconst(x, t)
                raise Violation('unsupported', 'int->float reinterpretation in real mode', None)
            # ieee mode: a double that is only moved around stays a raw bit pattern (exact pass-through, NaN payloads included);
            # it becomes a FloatingPoint term at the first arithmetic use (fpv)
            if isinstance(v, Ptr): v = s.ptr_as_int(v)
            w = 64 if t.k == 'double' else 32
            if isc(v): return z3.BitVecVal(v, w)
            if z3.is_bool(v): return s.bv(v, w)
            return v if v.size() == w else z3.Extract(w - 1, 0, v)
        return v

    def is_zero(s, v):
        if isinstance(v, bool): return not v
        if isc(v): return v == 0
        if isinstance(v, (Ptr, tuple, NonFinite)): return False
        v = z3.simplify(v)
        if z3.is_bv_value(v): return v.as_long() == 0
        if z3.is_rational_value(v): return v.numerator_as_long() == 0
        if z3.is_fp_value(v): return v.isZero() and not v.isNegative()
        return False

    def fpv(s, v):
        if s.fpmode == 'real' or z3.is_fp(v): return v
        if isc(v): raise Exception('raw int as fp value')
        return z3.fpBVToFP(v, z3.Float64() if v.size() == 64 else z3.Float32())

    def load_val(s, st, p, t):
        t = s.res(t)
        if t.k == 'struct':
            offs = s.layout(t)[2]
            return ('agg', [s.load_val(st, Ptr(p.obj, p.off + o), f) for f, o in zip(t.fields, offs)])
        if t.k == 'array':
            es = s.sizeof(t.elem)
            return ('agg', [s.load_val(st, Ptr(p.obj, p.off + i * es), t.elem) for i in range(t.n)])
        size = s.sizeof(t)
        o = s.check_access(st, p, size, 'load')
        if isc(p.off): return s.load_cell(st, o, p.off, size, t)
        if o.const and isc(o.size) and o.size // size <= 512 and t.k == 'int':
            # lookup table with a symbolic index: ite-chain over all entries, grouped by value (no solver calls)
            groups = {}
            for off in range(0, o.size - size + 1, size):
                cv = s.load_cell(st, o, off, size, t)
                if not (isc(cv) or isinstance(cv, bool)): groups = None; break
                groups.setdefault(cv, []).append(off)
            if groups is not None:
                items = sorted(groups.items(), key=lambda kv: -len(kv[1]))
                res = items[0][0]
                for val, offs in items[1:]:
                    cond = z3.Or(*[p.off == z3.BitVecVal(off, 64) for off in offs])
                    res = s.ite(cond, val, res, t)
                return z3.simplify(res) if z3.is_expr(res) else res
        # symbolic offset: ite-chain over the offsets that are feasible under the path condition
        res = None
        for off in s.feasible_values(st, p.off, 256):
            cv = s.load_cell(st, o, off, size, t)
            res = cv if res is None else s.ite(p.off == z3.BitVecVal(off, 64), cv, res, t)
        return z3.simplify(res) if z3.is_expr(res) else res

    def ite(s, c, a, b, t=None):
        if isinstance(c, bool): return a if c else b
        if isinstance(a, Ptr) or isinstance(b, Ptr):
            if isinstance(a, Ptr) and isinstance(b, Ptr) and a.obj == b.obj:
                return Ptr(a.obj, s.ite(c, a.off, b.off))
            raise Violation('unsupported', 'ite over pointers to different objects', None)
        if isinstance(a, tuple): return ('agg', [s.ite(c, x, y) for x, y in zip(a[1], b[1])])
        if (not isc(a) and not isinstance(a, bool) and z3.is_fp(a)) != (not isc(b) and not isinstance(b, bool) and z3.is_fp(b)):
            a = s.fpv(a) if not isc(a) else a; b = s.fpv(b) if not isc(b) else b
        if isinstance(a, bool) or z3.is_bool(a) or isinstance(b, bool) or z3.is_bool(b):
            return z3.simplify(z3.If(c, s.zb(a), s.zb(b)))
        if isc(a) and isc(b):
            if a == b: return a
            w = s.res(t).bits if t is not None and s.res(t).k == 'int' else 64
            return z3.If(c, z3.BitVecVal(a, w), z3.BitVecVal(b, w))
        if isc(a): a = z3.BitVecVal(a, b.size())
        if isc(b): b = z3.BitVecVal(b, a.size())
        return z3.If(c, a, b)
    def zb(s, v): return z3.BoolVal(v) if isinstance(v, bool) else v

    def gep(s, st, srcty, base, idx):
        off = base.off
        t = srcty
        first = True
        for ix in idx:
            if first:
                sz = s.sizeof(t); first = False
                off = s.addoff(off, ix, sz)
            else:
                r = s.res(t)
                if r.k == 'struct':
                    off = s.addoff(off, s.layout(r)[2][ix], 1); t = r.fields[ix]
                else:
                    off = s.addoff(off, ix, s.sizeof(r.elem)); t = r.elem
        return Ptr(base.obj, off)
    def addoff(s, off, ix, scale):
        if isinstance(ix, bool): ix = int(ix)
        if isc(ix):
            if ix >= (1 << 63): ix -= (1 << 64)
            elif ix >= (1 << 31) and ix < (1 << 32): pass
            d = ix * scale
            if isc(off): return off + d
            return z3.simplify(off + z3.BitVecVal(d, 64))
        if ix.size() < 64: ix = z3.SignExt(64 - ix.size(), ix)
        e = ix * z3.BitVecVal(scale, 64)
        return z3.simplify(s.bv(off, 64) + e)

    # ------------------------------------------------ solver
    def sync(s, st):
        # keep the solver's assertion stack equal to the path condition of st (one push per conjunct)
        cur = s.asserted; pc = st.pc; k = 0; n = min(len(cur), len(pc))
        while k < n and cur[k] is pc[k]: k += 1
        if len(cur) > k:
            s.solver.pop(len(cur) - k); del cur[k:]
        for c in pc[k:]:
            s.solver.push(); s.solver.add(c); cur.append(c)

    def vars_of(s, e):
        """(set of uninterpreted constant names, contains-UF-application flag) of an expression, memoised on the AST id"""
        memo = s.__dict__.setdefault('_vmemo', {})
        k = e.get_id()
        if k in memo: return memo[k][:3]
        vs = set(); uf = False; seen = set(); stack = [e]; real = False
        while stack:
            x = stack.pop(); i = x.get_id()
            if i in seen: continue
            seen.add(i)
            if i in memo: vs |= memo[i][0]; uf = uf or memo[i][1]; real = real or memo[i][2]; continue
            if z3.is_real(x): real = True
            if z3.is_app(x):
                if x.num_args() == 0:
                    if x.decl().kind() == z3.Z3_OP_UNINTERPRETED: vs.add(x.decl().name())
                else:
                    if x.decl().kind() == z3.Z3_OP_UNINTERPRETED: uf = True
                    stack.extend(x.children())
        memo[k] = (vs, uf, real, e)      # the expression is kept alive: z3 reuses AST ids of collected terms
        return memo[k][:3]

    def feasible_relaxed(s, st, cond):
        """real mode: branch feasibility on the cone of influence of cond within the path condition, leaving out conjuncts that mention
        uninterpreted libm functions.  Fewer constraints => 'unsat' still proves the branch infeasible; 'sat'/'unknown' => explore it."""
        cv = s.vars_of(cond)[0]
        items = [(c,) + s.vars_of(c)[:2] for c in st.pc]
        cone = set(cv); chosen = []; changed = True; rest = [it for it in items if not it[2]]
        while changed:
            changed = False; keep = []
            for it in rest:
                if it[1] & cone or not it[1]:
                    chosen.append(it[0]); cone |= it[1]; changed = True
                else: keep.append(it)
            rest = keep
        s.stats['queries'] += 1; s.stats['relaxed_queries'] = s.stats.get('relaxed_queries', 0) + 1
        t0 = time.time()
        rs = s.__dict__.get('_rsolver')
        if rs is None: rs = s._rsolver = z3.Solver(); rs.set('timeout', 2000)
        rs.push()
        try:
            for c in chosen: rs.add(c)
            rs.add(cond)
            import threading
            timer = threading.Timer(4.0, rs.ctx.interrupt); timer.start()
            try: r = rs.check()
            except z3.Z3Exception: r = z3.unknown
            finally: timer.cancel()
        finally:
            rs.pop()
        s.stats['solver_s'] += time.time() - t0
        if r == z3.unsat: return None
        if r == z3.unknown: s.stats['undecided_feasibility'] = s.stats.get('undecided_feasibility', 0) + 1
        return UNDECIDED

    def feasible_values(s, st, term, limit):
        """all values the bit-vector term can take under the path condition (at most `limit`, else unsupported)"""
        vals = []; block = []
        while True:
            m = s.sat(st, z3.And(*block) if block else None)
            if m is None: break
            v = m.eval(term, model_completion=True).as_long()
            if v >= (1 << 63): v -= 1 << 64
            vals.append(v); block.append(term != z3.BitVecVal(v, term.size()))
            if len(vals) > limit: raise Violation('unsupported', 'symbolic pointer with more than %d feasible offsets' % limit, st)
        if not vals: raise PathEnd('infeasible')
        return vals

    def assert_relaxed_unsat(s, st, negated):
        """try to refute the negated assertion from the cone of influence of its variables only (a proof from fewer hypotheses is a proof);
        anything but unsat falls back to the full path condition"""
        cv = s.vars_of(negated)[0]
        items = [(c,) + s.vars_of(c)[:2] for c in st.pc]
        cone = set(cv); chosen = []; changed = True; rest = list(items)
        while changed:
            changed = False; keep = []
            for it in rest:
                if it[1] & cone or not it[1]:
                    chosen.append(it[0]); cone |= it[1]; changed = True
                else: keep.append(it)
            rest = keep
        if not rest: return False          # nothing would be left out
        s.stats['queries'] += 1; s.stats['relaxed_queries'] = s.stats.get('relaxed_queries', 0) + 1
        t0 = time.time()
        rs = z3.Solver(); rs.set('timeout', 10000)
        for c in chosen: rs.add(c)
        rs.add(negated)
        import threading
        timer = threading.Timer(14.0, rs.ctx.interrupt); timer.start()
        try: r = rs.check()
        except z3.Z3Exception: r = z3.unknown
        finally: timer.cancel()
        s.stats['solver_s'] += time.time() - t0
        return r == z3.unsat

    def rat_identity(s, st, c):
        """equalities between real terms that are identities of rational functions (engine/ratfun.py); every symbolic divisor met
        must be non-zero under the path condition (decided by the solver), otherwise the generic route is taken"""
        import ratfun
        conj = c.children() if z3.is_and(c) else [c]
        need = []
        for e in conj:
            if not (z3.is_eq(e) and z3.is_real(e.arg(0))): return False
            ok, divs = ratfun.identity(e.arg(0), e.arg(1))
            if not ok: return False
            need += divs
        seen = set()
        for d in need:
            if d.get_id() in seen: continue
            seen.add(d.get_id())
            z = d == z3.RealVal(0)
            if s.assert_relaxed_unsat(st, z): continue
            try:
                if s.sat(st, z) is not None: return False
            except Violation: return False
        return True

    def sat(s, st, extra=None, soft=False):
        if soft and s.fpmode == 'real' and extra is not None and not isinstance(extra, bool) and (s.vars_of(extra)[2] or getattr(st, 'relaxed', False)):
            st.relaxed = True      # once a real-valued branch was taken on relaxed feasibility the path stays in relaxed mode
            if st.model is not None and st.model is not UNDECIDED:
                try:
                    if z3.is_true(st.model.eval(extra, model_completion=True)): s.stats['cache_hits'] += 1; return st.model
                except z3.Z3Exception: pass
            return s.feasible_relaxed(st, extra)
        # model cache: the state's last model may already satisfy the extra condition
        if extra is not None and st.model is not None:
            try:
                if z3.is_true(st.model.eval(extra, model_completion=True)): s.stats['cache_hits'] += 1; return st.model
            except z3.Z3Exception: pass
        s.stats['queries'] += 1
        t0 = time.time()
        s.sync(st)
        s.solver.push()
        if extra is not None: s.solver.add(extra)
        import threading
        lim = getattr(s, 'qtimeout', 15000)
        if soft: lim = min(lim, getattr(s, 'soft_timeout', 3000))
        s.solver.set('timeout', lim)
        timer = threading.Timer(lim / 1000.0 * 1.5 + 1.0, s.solver.ctx.interrupt); timer.start()    # z3's own timeout is not honoured inside nlsat
        try:
            r = s.solver.check()
        except z3.Z3Exception:
            r = z3.unknown
        finally:
            timer.cancel()
        mdl = s.solver.model() if r == z3.sat else None
        if r == z3.unknown and not soft:
            r, mdl = s.fallback_cvc5(st)
        s.solver.pop()
        dt = time.time() - t0
        if dt > 1.0 and getattr(s, 'trace', False):
            fr = st.frames[-1] if st.frames else None
            print('SLOW QUERY %.1fs result=%s at %s:%s extra=%s' % (dt, r, fr.fn[:50] if fr else '?', fr.lab if fr else '?', (extra.sexpr()[:400] if extra is not None else None)), flush=True)
        s.stats['solver_s'] += dt
        if dt > s.stats['max_query_s']: s.stats['max_query_s'] = dt
        if r == z3.unknown:
            if soft:
                # feasibility of a branch could not be decided: explore it anyway (sound for assertion checking: a violation still needs a model)
                s.stats['undecided_feasibility'] = s.stats.get('undecided_feasibility', 0) + 1
                return UNDECIDED
            raise Violation('inconclusive', 'solver returned unknown (%s)' % s.solver.reason_unknown(), st)
        return mdl
    def fallback_cvc5(s, st):
        """z3 gave up (bit-vector division / multiplication by constants): re-decide the same query with cvc5's integer encoding of
        bit-vectors (--solve-bv-as-int=sum keeps the mod 2^k semantics).  unsat is taken from cvc5; a sat answer is turned back into a z3 model
        by asserting cvc5's values for the inputs and re-checking with z3, so the model used for replay is always z3-validated."""
        import subprocess, tempfile, os, re as _re
        s.stats['cvc5_queries'] = s.stats.get('cvc5_queries', 0) + 1
        smt = _re.sub(r'(bv[su](?:div|rem|mod))_i', r'\1', s.solver.to_smt2())   # z3-internal names for division by a non-zero divisor
        ins = [i for i in st.inputs if (z3.is_bv(i) or z3.is_bool(i)) and ('(declare-fun %s ' % i.sexpr()) in smt]
        smt = smt.replace('(check-sat)', '(check-sat)\n' + ''.join('(get-value (%s))\n' % i.sexpr() for i in ins))
        fd, path = tempfile.mkstemp(suffix='.smt2'); os.write(fd, ('(set-option :produce-models true)\n(set-logic ALL)\n' + smt).encode()); os.close(fd)
        # portfolio: cvc5 with the integer encoding of bit-vectors, and the stand-alone z3 5.1 with a long budget; first definitive answer wins
        lim = getattr(s, 'qtimeout2', 120000)
        procs = [subprocess.Popen(['cvc5', '--solve-bv-as-int=sum', '--tlimit=%d' % lim, path], stdout=subprocess.PIPE, stderr=subprocess.STDOUT, text=True),
                 subprocess.Popen(['z3-new', '-T:%d' % (lim // 1000), path], stdout=subprocess.PIPE, stderr=subprocess.STDOUT, text=True)]
        out = ''; t1 = time.time()
        try:
            live = list(procs)
            while live and time.time() - t1 < lim / 1000 + 20:
                for pr in list(live):
                    if pr.poll() is not None:
                        live.remove(pr); o = pr.stdout.read()
                        if o.strip().split('\n')[0] in ('sat', 'unsat'): out = o; live = []; break
                time.sleep(0.05)
        finally:
            for pr in procs:
                if pr.poll() is None: pr.kill()
            os.unlink(path)
        head = out.strip().split('\n')[0] if out.strip() else ''
        errs = [l for l in out.split('\n') if '(error' in l and 'Cannot get value unless after a SAT' not in l and 'model is not available' not in l]
        if errs: return z3.unknown, None
        if head == 'unsat': s.stats['cvc5_unsat'] = s.stats.get('cvc5_unsat', 0) + 1; return z3.unsat, None
        if head == 'sat':
            s.solver.push()
            try:
                for i in ins:
                    m = _re.search(r'\(\(' + _re.escape(i.sexpr()) + r' (#b[01]+|#x[0-9a-fA-F]+|true|false)\)\)', out)
                    if not m: continue
                    v = m.group(1)
                    if v in ('true', 'false'): s.solver.add(i == (v == 'true'))
                    else: s.solver.add(i == z3.BitVecVal(int(v[2:], 2 if v[1] == 'b' else 16), i.size()))
                r = s.solver.check()
                return (r, s.solver.model()) if r == z3.sat else (z3.unknown, None)
            finally: s.solver.pop()
        return z3.unknown, None

    def assume(s, st, c):
        st.pc.append(c)
        if st.model is not None:
            try:
                if not z3.is_true(st.model.eval(c, model_completion=True)): st.model = None
            except z3.Z3Exception: st.model = None

    # ------------------------------------------------ run
    def init_state(s):
        st = State(); st.cow = set()
        # globals
        for n in s.m.gorder:
            g = s.m.globals[n]
            if n.startswith('llvm.'): continue
            size = s.sizeof(g['ty']) if s.res(g['ty']).k != 'opaque' else 8
            if g['init'] is None and n.startswith('_ZTI'):
                # external std::type_info object (fundamental / library type): {vptr, const char* __name}
                oid = s.new_obj(st, 16, n, kind='zero'); s.gobj[n] = oid
                nm = n[4:].encode() + b'\0'
                noid = s.new_obj(st, len(nm), 'typeinfo-name ' + n, kind='zero')
                for i, ch in enumerate(nm): st.objs[noid].cells[i] = (1, ch)
                st.objs[oid].cells[8] = (8, Ptr(noid, 0))
                continue
            oid = s.new_obj(st, max(size, 1), n, kind='zero'); s.gobj[n] = oid
            if g['init'] is None and n in ('_ZTVSt13basic_fstreamIcSt11char_traitsIcEE', '_ZTVSt14basic_ifstreamIcSt11char_traitsIcEE', '_ZTVSt14basic_ofstreamIcSt11char_traitsIcEE'):
                # external vtable of a libstdc++ file stream: the virtual-base offsets sit 24 bytes before each address point
                if 'fstream' in n and 'ifstream' not in n and 'ofstream' not in n: st.objs[oid].cells[0] = (8, 264); st.objs[oid].cells[40] = (8, 248)
                elif 'ifstream' in n: st.objs[oid].cells[0] = (8, 256)
                else: st.objs[oid].cells[0] = (8, 248)
            if g['init'] is None and n.startswith('_ZTT'):
                # external VTT of a libstdc++ stream class: entries point at fake vtables that carry the virtual-base offset
                vb = {'ostringstream': 112, 'istringstream': 120, 'stringstream': 128, 'ofstream': 248, 'ifstream': 256, 'fstream': 264}
                off = next((v for k, v in sorted(vb.items(), key=lambda kv: -len(kv[0])) if k in n), 0)
                cnt = max(size // 8, 1)
                vt = s.new_obj(st, 64 * cnt, 'fake-vtable-for-' + n, kind='zero')
                for k in range(cnt):
                    st.objs[vt].cells[64 * k] = (8, off if k == 0 else 0)
                    st.objs[oid].cells[8 * k] = (8, Ptr(vt, 64 * k + 24))
        for n in s.m.gorder:
            g = s.m.globals[n]
            if n.startswith('llvm.') or g['init'] is None: continue
            if g['init'].k == 'zero': continue
            s.store_val(st, Ptr(s.gobj[n], 0), g['ty'], s.const(st, g['init']))
            st.objs[s.gobj[n]].const = g['const']
        return st

    def call_fn(s, st, name, args, ret_to):
        f = s.m.funcs[name]
        s.stats['funcs'].add(name)
        fr = Frame(name); fr.lab = f['blocks'][0][0]; fr.ret_to = ret_to
        un = 0
        for (t, n), a in zip(f['params'], args):
            if n is None: n = str(un); un += 1
            elif n.isdigit(): un += 1
            fr.loc[n] = a
        st.frames.append(fr)

    def run_ctors(s):
        """execute the module's static constructors (llvm.global_ctors) once, concretely, to obtain the initial state of every entry"""
        st = s.init_state()
        g = s.m.globals.get('llvm.global_ctors')
        fns = []
        if g is not None and g['init'] is not None and g['init'].k == 'agg':
            for e in g['init'].elems:
                prio = e.elems[0].val; f = e.elems[1]
                while f.k == 'cexpr': f = f.ops[0]
                if f.k == 'global': fns.append((prio, f.name))
        for prio, fn in sorted(fns, key=lambda x: x[0]):
            if fn not in s.m.funcs or s.m.funcs[fn]['blocks'] is None: continue
            s.call_fn(st, fn, [], None)
            work = []
            try: out = s.run_path(st, work)
            except PathEnd as e: raise Violation('unsupported', 'static constructor %s ended with %s' % (fn, e), st)
            if work: raise Violation('unsupported', 'static constructor %s forked' % fn, st)
        s.base_state = st

    def run(s, entry):
        st0 = s.base_state.fork() if getattr(s, 'base_state', None) is not None else s.init_state()
        s.call_fn(st0, entry, [], None)
        work = [st0]
        results = []
        t0 = time.time()
        s.samples = []
        while work:
            st = work.pop()
            try:
                try: out = s.run_path(st, work)
                except PathEnd as e:
                    out = str(e)
                    if out.startswith('uncaught') and not getattr(s, 'allow_uncaught', False):
                        raise Violation('uncaught', 'exception escaped the harness: ' + out, st)
                s.stats['paths'] += 1
                results.append(out)
                if out != 'infeasible' and len(s.samples) < 6:
                    s.samples.append(dict(outcome=out, path_conjuncts=len(st.pc), steps=st.steps, inputs=len(st.inputs),
                                          pc_head=[str(z3.simplify(c))[:160] for c in st.pc[:3]]))
            except Violation as v:
                if v.st is None: v.st = st
                if v.model is None and v.kind not in ('inconclusive', 'bound', 'unsupported'):
                    # the path may have been entered through an undecided (relaxed) feasibility test: a violation needs a model of the full path condition
                    try: v.model = s.sat(v.st)
                    except Violation as v2: return ('VIOLATION', v2, results)
                    if v.model is None:
                        s.stats['paths'] += 1; results.append('infeasible'); continue
                if v.model is None and v.kind == 'bound' and 'visited more than' in v.msg and v.st is not None:
                    # a loop outran its bound: keep a witness input of this path (a candidate hang is decided by the native replay)
                    try: v.model = s.sat(v.st, soft=True)
                    except Violation: v.model = None
                    if v.model is UNDECIDED: v.model = None
                return ('VIOLATION', v, results)
        return ('OK', None, results)

    def run_path(s, st, work):
        while True:
            fr = st.frames[-1]
            ins = s.blocks[fr.fn][fr.lab]
            x = ins[fr.idx]
            st.steps += 1; s.stats['steps'] += 1
            if st.steps > s.maxsteps:
                s.stats['bound_hits'] += 1
                raise Violation('bound', 'step bound %d exceeded' % s.maxsteps, st)
            if (st.steps & 1023) == 0 and getattr(s, 'deadline', None) and time.time() > s.deadline:
                raise Violation('bound', 'wall-clock budget exceeded', st)
            r = s.step(st, fr, x, work)
            if r == 'done': return 'returned'
            if r == 'infeasible': return 'infeasible'

    def jump(s, st, fr, target):
        # loop bound bookkeeping on back edges is approximated by counting block visits
        c = fr.loopcnt.get(target, 0) + 1; fr.loopcnt[target] = c
        if c > s.loopmax:
            s.stats['bound_hits'] += 1
            raise Violation('bound', 'block %s of %s visited more than %d times on one path' % (target, fr.fn, s.loopmax), st)
        # phis: parallel assignment
        ins = s.blocks[fr.fn][target]
        vals = []
        for x in ins:
            if x['op'] != 'phi': break
            for v, lab in x['inc']:
                if lab == fr.lab:
                    vals.append((x['dst'], s.val(st, v))); break
            else: raise Exception('phi without incoming for ' + fr.lab)
        for d, v in vals: fr.loc[d] = v
        fr.prev = fr.lab; fr.lab = target; fr.idx = len(vals)

    def branch(s, st, fr, cond, a, b, work):
        cond = s.tobool(cond)
        if isinstance(cond, bool):
            s.jump(st, fr, a if cond else b); return
        cond = z3.simplify(cond)
        if z3.is_true(cond): s.jump(st, fr, a); return
        if z3.is_false(cond): s.jump(st, fr, b); return
        if s.fpmode == 'real':
            try:
                c2 = z3.simplify(cond, som=True, som_blowup=100000000, arith_lhs=True)
                if z3.is_true(c2): s.jump(st, fr, a); return
                if z3.is_false(c2): s.jump(st, fr, b); return
            except z3.Z3Exception: pass
        ncond = z3.Not(cond)
        ma = s.sat(st, cond, soft=True); mb = s.sat(st, ncond, soft=True)
        if ma is not None and mb is not None:
            s.stats['forks'] += 1
            o = st.fork(); o.pc.append(ncond); o.model = mb; s.jump(o, o.frames[-1], b); work.append(o)
            st.pc.append(cond); st.model = ma; s.jump(st, fr, a)
        elif ma is not None: st.pc.append(cond); st.model = ma; s.jump(st, fr, a)
        elif mb is not None: st.pc.append(ncond); st.model = mb; s.jump(st, fr, b)
        else: return 'infeasible'

    def step(s, st, fr, x, work):
        op = x['op']; d = x['dst']; L = fr.loc
        fr.idx += 1
        if op in BIN:
            L[d] = s.binop(st, op, x['ty'], s.val(st, x['a']), s.val(st, x['b']))
        elif op in ('fadd', 'fsub', 'fmul', 'fdiv'):
            a = s.fpv(s.val(st, x['a'])); b = s.fpv(s.val(st, x['b']))
            if s.fpmode == 'real':
                # real mode: x/0 is z3's total, functional but otherwise arbitrary value (stands for inf/NaN):
                # an assertion that depends on such a quotient fails, one that does not is unaffected
                L[d] = {'fadd': a + b, 'fsub': a - b, 'fmul': a * b, 'fdiv': a / b}[op]
            else:
                rm = z3.RNE()
                L[d] = {'fadd': z3.fpAdd, 'fsub': z3.fpSub, 'fmul': z3.fpMul, 'fdiv': z3.fpDiv}[op](rm, a, b)
        elif op == 'fneg':
            a = s.fpv(s.val(st, x['a'])); L[d] = -a if s.fpmode == 'real' else z3.fpNeg(a)
        elif op == 'icmp':
            L[d] = s.icmp(st, x['pred'], x['opty'], s.val(st, x['a']), s.val(st, x['b']))
        elif op == 'fcmp':
            a = s.fpv(s.val(st, x['a'])); b = s.fpv(s.val(st, x['b'])); p = x['pred']
            if s.fpmode == 'real' and (isinstance(a, NonFinite) or isinstance(b, NonFinite)):
                import math
                fa = a.x if isinstance(a, NonFinite) else 0.0; fb = b.x if isinstance(b, NonFinite) else 0.0   # any finite stand-in: only the order against +-inf matters
                if isinstance(a, NonFinite) and isinstance(b, NonFinite): pass
                nan = math.isnan(fa) or math.isnan(fb)
                base = {'eq': fa == fb, 'ne': fa != fb, 'gt': fa > fb, 'ge': fa >= fb, 'lt': fa < fb, 'le': fa <= fb}
                L[d] = (not nan) if p == 'ord' else nan if p == 'uno' else ((not nan) and base[p[1:]]) if p[0] == 'o' else (nan or base[p[1:]])
                return
            if s.fpmode == 'real':
                L[d] = {'oeq': a == b, 'ueq': a == b, 'one': a != b, 'une': a != b, 'ogt': a > b, 'ugt': a > b, 'oge': a >= b, 'uge': a >= b,
                        'olt': a < b, 'ult': a < b, 'ole': a <= b, 'ule': a <= b, 'ord': z3.BoolVal(True), 'uno': z3.BoolVal(False)}[p]
            else:
                nan = z3.Or(z3.fpIsNaN(a), z3.fpIsNaN(b))
                base = {'eq': z3.fpEQ(a, b), 'gt': z3.fpGT(a, b), 'ge': z3.fpGEQ(a, b), 'lt': z3.fpLT(a, b), 'le': z3.fpLEQ(a, b), 'ne': z3.Not(z3.fpEQ(a, b))}
                if p == 'ord': L[d] = z3.Not(nan)
                elif p == 'uno': L[d] = nan
                elif p[0] == 'o': L[d] = z3.And(z3.Not(nan), base[p[1:]])
                else: L[d] = z3.Or(nan, base[p[1:]])
            L[d] = z3.simplify(L[d])
            if z3.is_true(L[d]): L[d] = True
            elif z3.is_false(L[d]): L[d] = False
        elif op == 'alloca':
            n = 1 if x['n'] is None else s.val(st, x['n'])
            oid = s.new_obj(st, s.sizeof(x['aty']) * n, 'alloca %s in %s' % (d, fr.fn), kind='stack'); fr.allocas.append(oid)
            L[d] = Ptr(oid, 0)
        elif op == 'load':
            ptr = s.val(st, x['a'])
            if isinstance(ptr, Ptr) and not isc(ptr.off) and s.res(x['ty']).k in ('ptr', 'struct', 'array'):
                # pointer-typed load through a symbolic offset (e.g. an element chosen by a symbolic comparison): enumerate the feasible
                # offsets and fork one path per offset, so that each path loads a concrete pointer
                vals = s.feasible_values(st, ptr.off, 64)
                for v in vals[:-1]:
                    c = ptr.off == z3.BitVecVal(v, 64)
                    o = st.fork(); o.pc.append(c); fo = o.frames[-1]
                    fo.loc[d] = s.load_val(o, Ptr(ptr.obj, v), x['ty']); work.append(o); s.stats['forks'] += 1
                v = vals[-1]; s.assume(st, ptr.off == z3.BitVecVal(v, 64))
                L[d] = s.load_val(st, Ptr(ptr.obj, v), x['ty'])
            else:
                L[d] = s.load_val(st, ptr, x['ty'])
        elif op == 'store':
            ptr = s.val(st, x['a']); v = s.val(st, x['v'])
            if isinstance(ptr, Ptr) and not isc(ptr.off) and (isinstance(v, Ptr) or s.res(x['v'].ty).k == 'ptr'):
                # pointer stored through a symbolic offset (hash bucket chosen by a symbolic key): one path per feasible offset
                vals = s.feasible_values(st, ptr.off, 64)
                for k in vals[:-1]:
                    o = st.fork(); o.pc.append(ptr.off == z3.BitVecVal(k, 64)); s.store_val(o, Ptr(ptr.obj, k), x['v'].ty, v); work.append(o); s.stats['forks'] += 1
                s.assume(st, ptr.off == z3.BitVecVal(vals[-1], 64)); s.store_val(st, Ptr(ptr.obj, vals[-1]), x['v'].ty, v)
            else:
                s.store_val(st, ptr, x['v'].ty, v)
        elif op == 'getelementptr':
            L[d] = s.gep(st, x['srcty'], s.val(st, x['base']), [s.val(st, i) for i in x['idx']])
        elif op in ('bitcast', 'addrspacecast'):
            v = s.val(st, x['a'])
            L[d] = s.coerce(v, x['ty']) if s.res(x['a'].ty).k != 'ptr' else v
        elif op == 'ptrtoint':
            L[d] = s.coerce(s.ptr_as_int(s.val(st, x['a'])), x['ty'])
        elif op == 'inttoptr':
            L[d] = s.int_as_ptr(s.val(st, x['a']))
        elif op == 'trunc':
            v = s.val(st, x['a']); w = x['ty'].bits
            if isc(v): L[d] = (v & ((1 << w) - 1)) if w > 1 else bool(v & 1)
            else:
                e = z3.simplify(z3.Extract(w - 1, 0, v)); L[d] = e if w > 1 else (e == 1)
        elif op in ('zext', 'sext'):
            v = s.val(st, x['a']); sw = x['a'].ty.bits; w = x['ty'].bits
            if isinstance(v, bool): L[d] = (int(v) if op == 'zext' else ((1 << w) - 1 if v else 0))
            elif isc(v):
                if op == 'sext' and v >> (sw - 1): v |= ((1 << w) - 1) ^ ((1 << sw) - 1)
                L[d] = v
            elif z3.is_bool(v):
                L[d] = z3.If(v, z3.BitVecVal(1 if op == 'zext' else (1 << w) - 1, w), z3.BitVecVal(0, w))
            else: L[d] = z3.ZeroExt(w - sw, v) if op == 'zext' else z3.SignExt(w - sw, v)
        elif op in ('sitofp', 'uitofp'):
            v = s.val(st, x['a']); sw = x['a'].ty.bits
            if isinstance(v, bool): v = int(v)
            elif not isc(v) and z3.is_bool(v): v = s.bv(v, sw)
            if s.fpmode == 'real':
                if isc(v):
                    if op == 'sitofp' and v >> (sw - 1): v -= 1 << sw
                    L[d] = z3.RealVal(v)
                else: L[d] = z3.ToReal(z3.BV2Int(v, is_signed=(op == 'sitofp')))
            else:
                srt = z3.Float64() if x['ty'].k == 'double' else z3.Float32()
                L[d] = z3.fpSignedToFP(z3.RNE(), s.bv(v, sw), srt) if op == 'sitofp' else z3.fpUnsignedToFP(z3.RNE(), s.bv(v, sw), srt)
        elif op in ('fptosi', 'fptoui'):
            v = s.fpv(s.val(st, x['a'])); w = x['ty'].bits
            if s.fpmode == 'real':
                v = z3.simplify(v)
                if z3.is_rational_value(v):
                    q = v.numerator_as_long() * (1 if v.denominator_as_long() > 0 else -1); dnm = abs(v.denominator_as_long())
                    t = abs(q) // dnm; t = t if q >= 0 else -t
                    L[d] = t & ((1 << w) - 1)
                else:
                    ti = z3.If(v >= 0, z3.ToInt(v), -z3.ToInt(-v))   # truncation toward zero
                    L[d] = z3.Int2BV(ti, w)
            else:
                L[d] = z3.fpToSBV(z3.RTZ(), v, z3.BitVecSort(w)) if op == 'fptosi' else z3.fpToUBV(z3.RTZ(), v, z3.BitVecSort(w))
        elif op in ('fpext', 'fptrunc'):
            v = s.fpv(s.val(st, x['a']))
            L[d] = v if s.fpmode == 'real' else z3.fpFPToFP(z3.RNE(), v, z3.Float64() if x['ty'].k == 'double' else z3.Float32())
        elif op == 'select':
            c = s.val(st, x['c']); a = s.val(st, x['a']); b = s.val(st, x['b'])
            if not isinstance(c, bool) and isinstance(a, Ptr) and isinstance(b, Ptr) and a.obj != b.obj:
                # select between pointers into different objects: fork the path instead of building an ite
                c = z3.simplify(c); nc = z3.Not(c)
                ma = s.sat(st, c); mb = s.sat(st, nc)
                if ma is not None and mb is not None:
                    s.stats['forks'] += 1
                    o = st.fork(); o.pc.append(nc); o.model = mb; o.frames[-1].loc[d] = b; work.append(o)
                    st.pc.append(c); st.model = ma; L[d] = a
                elif ma is not None: st.pc.append(c); st.model = ma; L[d] = a
                elif mb is not None: st.pc.append(nc); st.model = mb; L[d] = b
                else: return 'infeasible'
                return
            L[d] = s.ite(c, a, b, x['ty']) if not isinstance(c, bool) else (a if c else b)
        elif op == 'phi':
            raise Exception('phi reached')
        elif op == 'br':
            if x['c'] is None: s.jump(st, fr, x['targets'][0])
            else: return s.branch(st, fr, s.val(st, x['c']), x['targets'][0], x['targets'][1], work)
        elif op == 'switch':
            v = s.val(st, x['v'])
            if isc(v):
                for cv, lab in x['cases']:
                    if cv.val & ((1 << cv.ty.bits) - 1) == v: s.jump(st, fr, lab); return
                s.jump(st, fr, x['default']); return
            rest = []
            for cv, lab in x['cases']:
                c = v == z3.BitVecVal(cv.val, cv.ty.bits)
                if s.sat(st, c) is not None:
                    o = st.fork(); o.pc.append(c); s.jump(o, o.frames[-1], lab); work.append(o); s.stats['forks'] += 1
                rest.append(z3.Not(c))
            dc = z3.And(*rest) if rest else z3.BoolVal(True)
            if s.sat(st, dc) is None: return 'infeasible'
            s.assume(st, dc); s.jump(st, fr, x['default'])
        elif op == 'ret':
            rv = None if x['v'] is None else s.val(st, x['v'])
            for oid in fr.allocas:
                o = s.wobj(st, oid); o.freed = True
            st.frames.pop()
            if not st.frames: return 'done'
            cal = st.frames[-1]
            if fr.ret_to is not None and fr.ret_to[0] is not None: cal.loc[fr.ret_to[0]] = rv
            if fr.ret_to is not None and fr.ret_to[1] is not None: s.jump(st, cal, fr.ret_to[1])
        elif op in ('call', 'invoke'):
            return s.call(st, fr, x, work)
        elif op == 'unreachable':
            raise Violation('ub', 'llvm unreachable executed in ' + fr.fn, st)
        elif op == 'extractvalue':
            v = s.val(st, x['a'])
            for i in x['idx']: v = v[1][i]
            L[d] = v
        elif op == 'insertvalue':
            a = s.val(st, x['a']); v = s.val(st, x['v'])
            def ins(agg, idx):
                l = list(agg[1]);
                l[idx[0]] = v if len(idx) == 1 else ins(l[idx[0]], idx[1:]); return ('agg', l)
            L[d] = ins(a, x['idx'])
        elif op == 'freeze': L[d] = s.val(st, x['a'])
        elif op == 'fence': pass
        elif op == 'atomicrmw':
            # single-threaded semantics (threads are not modelled): read-modify-write, result is the old value
            ptr = s.val(st, x['a']); v = s.val(st, x['v']); t = x['v'].ty
            old = s.load_val(st, ptr, t); rop = x['rop']
            if rop == 'xchg': new = v
            elif rop in ('add', 'sub', 'and', 'or', 'xor'): new = s.binop(st, rop, t, old, v)
            elif rop in ('max', 'min', 'umax', 'umin'):
                c = s.icmp(st, {'max': 'sgt', 'min': 'slt', 'umax': 'ugt', 'umin': 'ult'}[rop], t, old, v)
                new = s.ite(c, old, v, t) if not isinstance(c, bool) else (old if c else v)
            else: raise Violation('unsupported', 'atomicrmw ' + rop, st)
            s.store_val(st, ptr, t, new); L[d] = old
        elif op == 'cmpxchg':
            ptr = s.val(st, x['a']); cmpv = s.val(st, x['c']); newv = s.val(st, x['n']); t = x['c'].ty
            old = s.load_val(st, ptr, t)
            eq = s.icmp(st, 'eq', t, old, cmpv)
            if isinstance(eq, bool):
                if eq: s.store_val(st, ptr, t, newv)
                L[d] = ('agg', [old, eq])
            else:
                s.store_val(st, ptr, t, s.ite(eq, newv, old, t)); L[d] = ('agg', [old, eq])
        elif op == 'landingpad':
            sel = 0
            for kind, tv in x['clauses']:
                if kind != 'catch': continue
                if tv.k == 'null': sel = -1 & 0xffffffff; break
                v = tv
                while v.k == 'cexpr': v = v.ops[0]
                if s.exc_matches(st.exc[1], v.name, st): sel = s.gobj[v.name]; break
            if sel == 0 and not x['cleanup']:
                fr.idx -= 1
                return s.unwind(st)
            L[d] = ('agg', [st.exc[0], sel])
        elif op == 'resume':
            return s.unwind(st)
        else:
            raise Violation('unsupported', 'instruction ' + op, st)

    def exc_matches(s, thrown, want, st=None):
        """is `want` the thrown type or one of its public bases at offset 0 (Itanium typeinfo objects: __si_class_type_info has one base in
        slot 2, __vmi_class_type_info has flags, count and (base, offset_flags) pairs; a base at a non-zero offset would need a pointer
        adjustment of the caught object and is reported as unsupported)"""
        from ir2c import STD_EXC_BASE
        def bases(t):
            g = s.m.globals.get(t)
            if g is not None and g['init'] is not None and g['init'].k == 'agg' and len(g['init'].elems) >= 3:
                el = g['init'].elems
                def gname(b):
                    while b.k == 'cexpr': b = b.ops[0]
                    return b.name if b.k == 'global' else None
                if len(el) == 3:
                    n = gname(el[2]); return [(n, 0)] if n else []
                out = []; flat = []
                def walk(e):
                    if e.k == 'agg':
                        for q in e.elems: walk(q)
                    else: flat.append(e)
                for e in el[4:]: walk(e)
                for i in range(0, len(flat) - 1, 2):
                    n = gname(flat[i]); of = flat[i + 1]
                    off = (of.val >> 8) if getattr(of, 'k', None) == 'int' else None
                    if n: out.append((n, off))
                return out
            nb = STD_EXC_BASE.get(t)
            return [(nb, 0)] if nb else []
        seen = set(); todo = [(thrown, 0)]
        while todo and len(seen) < 64:
            t, off = todo.pop()
            if t == want:
                if off != 0: raise Violation('unsupported', 'catch of a base class at a non-zero offset (%s in %s)' % (want, thrown), st)
                return True
            if t in seen: continue
            seen.add(t)
            for n, o in bases(t): todo.append((n, off if o == 0 else (o if o is not None else -1)))
        return False

    def unwind(s, st):
        # pop the current frame and deliver the in-flight exception to the nearest enclosing invoke
        while st.frames:
            fr = st.frames.pop()
            for oid in fr.allocas:
                o = s.wobj(st, oid); o.freed = True
            if not st.frames:
                raise PathEnd('uncaught:' + str(st.exc[1]))
            if fr.ret_to is not None and len(fr.ret_to) > 2 and fr.ret_to[2] is not None:
                s.jump(st, st.frames[-1], fr.ret_to[2]); return
        raise PathEnd('uncaught')

    def binop(s, st, op, t, a, b):
        t = s.res(t); w = t.bits
        if w == 1:
            a = s.zb(a) if not isc(a) else bool(a); b = s.zb(b) if not isc(b) else bool(b)
            if isinstance(a, bool) and isinstance(b, bool):
                return {'and': a and b, 'or': a or b, 'xor': a != b, 'add': a != b, 'sub': a != b, 'mul': a and b}[op]
            r = {'and': z3.And, 'or': z3.Or, 'xor': z3.Xor, 'add': z3.Xor, 'sub': z3.Xor, 'mul': z3.And}[op](s.zb(a), s.zb(b))
            r = z3.simplify(r)
            return True if z3.is_true(r) else False if z3.is_false(r) else r
        if isinstance(a, Ptr): a = s.ptr_as_int(a)
        if isinstance(b, Ptr): b = s.ptr_as_int(b)
        M = (1 << w) - 1
        if isc(a) and isc(b):
            sa = a - (1 << w) if a >> (w - 1) else a; sb = b - (1 << w) if b >> (w - 1) else b
            if op == 'add': return (a + b) & M
            if op == 'sub': return (a - b) & M
            if op == 'mul': return (a * b) & M
            if op == 'and': return a & b
            if op == 'or': return a | b
            if op == 'xor': return a ^ b
            if op == 'shl': return (a << b) & M if b < w else 0
            if op == 'lshr': return a >> b if b < w else 0
            if op == 'ashr': return (sa >> b) & M if b < w else (M if sa < 0 else 0)
            if op in ('udiv', 'urem', 'sdiv', 'srem') and b == 0: raise Violation('ub', 'division by zero', st)
            if op == 'udiv': return a // b
            if op == 'urem': return a % b
            if op == 'sdiv': q = abs(sa) // abs(sb); return (q if (sa < 0) == (sb < 0) else -q) & M
            if op == 'srem': r = abs(sa) % abs(sb); return (r if sa >= 0 else -r) & M
        A = s.bv(a, w); B = s.bv(b, w)
        if op in ('udiv', 'urem', 'sdiv', 'srem'):
            m = s.sat(st, B == 0)
            if m is not None: raise Violation('ub', 'division by zero possible', st, m)
        r = {'add': lambda: A + B, 'sub': lambda: A - B, 'mul': lambda: A * B, 'and': lambda: A & B, 'or': lambda: A | B, 'xor': lambda: A ^ B,
             'shl': lambda: A << B, 'lshr': lambda: z3.LShR(A, B), 'ashr': lambda: A >> B, 'udiv': lambda: z3.UDiv(A, B), 'urem': lambda: z3.URem(A, B),
             'sdiv': lambda: A / B, 'srem': lambda: z3.SRem(A, B)}[op]()
        r = z3.simplify(r)
        return r.as_long() if z3.is_bv_value(r) else r

    def icmp(s, st, pred, t, a, b):
        t = s.res(t)
        if t.k == 'ptr':
            if isinstance(a, Ptr) and isinstance(b, Ptr) and a.obj == b.obj:
                a, b = a.off, b.off
            else:
                a = s.ptr_as_int(a) if isinstance(a, Ptr) else a; b = s.ptr_as_int(b) if isinstance(b, Ptr) else b
            w = 64
        else: w = t.bits
        if w == 1:
            a = int(a) if isinstance(a, bool) else a; b = int(b) if isinstance(b, bool) else b
            if not isc(a): a = s.bv(a, 1)
            if not isc(b): b = s.bv(b, 1)
        if isc(a) and isc(b):
            sa = a - (1 << w) if a >> (w - 1) else a; sb = b - (1 << w) if b >> (w - 1) else b
            return {'eq': a == b, 'ne': a != b, 'ult': a < b, 'ule': a <= b, 'ugt': a > b, 'uge': a >= b, 'slt': sa < sb, 'sle': sa <= sb, 'sgt': sa > sb, 'sge': sa >= sb}[pred]
        A = s.bv(a, w); B = s.bv(b, w)
        r = {'eq': lambda: A == B, 'ne': lambda: A != B, 'ult': lambda: z3.ULT(A, B), 'ule': lambda: z3.ULE(A, B), 'ugt': lambda: z3.UGT(A, B), 'uge': lambda: z3.UGE(A, B),
             'slt': lambda: A < B, 'sle': lambda: A <= B, 'sgt': lambda: A > B, 'sge': lambda: A >= B}[pred]()
        r = z3.simplify(r)
        return True if z3.is_true(r) else False if z3.is_false(r) else r

    # ------------------------------------------------ calls
    def call(s, st, fr, x, work):
        cal = x['callee']; d = x['dst']; L = fr.loc
        args = [s.val(st, a) if a is not None else None for a in x['args']]
        nxt = x.get('normal')
        if cal.k == 'global': name = cal.name
        else:
            p = s.val(st, cal)
            if not (isinstance(p, Ptr) and p.obj == -1 and isc(p.off)): raise Violation('unsupported', 'indirect call through non-constant pointer', st)
            name = s.fbyaddr[p.off]
        f = s.m.funcs.get(name)
        if name in ('_ZNSt7__cxx119to_stringEi', '_ZNSt7__cxx119to_stringEl', '_ZNSt7__cxx119to_stringEm', '_ZNSt7__cxx119to_stringEj', '_ZNSt7__cxx119to_stringEd', '_ZNSt7__cxx119to_stringEf', '_ZNSt7__cxx119to_stringEe', '_ZNSt7__cxx119to_stringEx', '_ZNSt7__cxx119to_stringEy',
                    '_ZN9__gnu_cxx12__to_xstringINSt7__cxx1112basic_stringIcSt11char_traitsIcESaIcEEEcEET_PFiPT0_mPKS8_P13__va_list_tagEmSB_z'):
            # integers that are concrete on this path are printed exactly (they become file names, array names such as "V12", map keys);
            # anything else is a formatting stub: the value is dropped from the message and an empty SSO string is returned
            p = args[0]
            ints = {'_ZNSt7__cxx119to_stringEi': (32, True), '_ZNSt7__cxx119to_stringEl': (64, True), '_ZNSt7__cxx119to_stringEx': (64, True),
                    '_ZNSt7__cxx119to_stringEj': (32, False), '_ZNSt7__cxx119to_stringEm': (64, False), '_ZNSt7__cxx119to_stringEy': (64, False)}
            if name in ints and len(args) > 1 and isc(args[1]):
                import cxxrt as _cx
                w, sg = ints[name]; v = args[1] & ((1 << w) - 1)
                if sg and v >> (w - 1): v -= 1 << w
                _cx.make_string(s, st, p, list(str(v).encode()))
                if nxt is not None: s.jump(st, fr, nxt)
                return
            s.store_val(st, p, PTR(I8), Ptr(p.obj, p.off + 16)); s.store_val(st, Ptr(p.obj, p.off + 8), I64, 0); s.store_val(st, Ptr(p.obj, p.off + 16), I8, 0)
            if nxt is not None: s.jump(st, fr, nxt)
            return
        import cxxrt
        if f is not None and f['blocks'] is not None and not cxxrt.is_forced(name):
            s.call_fn(st, name, args, (d if x['ty'].k != 'void' else None, nxt, x.get('unwind'))); return
        try:
            r = s.builtin(st, fr, name, args, x, work)
        except Throw:
            if x.get('unwind') is not None: s.jump(st, fr, x['unwind']); return
            return s.unwind(st)
        if isinstance(r, str) and r == 'infeasible': return r
        if d is not None and x['ty'].k != 'void': L[d] = r
        if nxt is not None: s.jump(st, fr, nxt)

    def exc_vtable(s, st):
        vt = getattr(st, 'exc_vt', None)
        if vt is None or vt not in st.objs:
            vt = s.new_obj(st, 64, 'fake-vtable(std::exception)', kind='zero'); st.exc_vt = vt
            st.objs[vt].cells[0] = (8, Ptr(-1, s.faddr['__verif_exc_dtor'])); st.objs[vt].cells[8] = (8, Ptr(-1, s.faddr['__verif_exc_dtor'])); st.objs[vt].cells[16] = (8, Ptr(-1, s.faddr['__verif_exc_what']))
        return vt

    def fork_ret(s, st, x, cond, retval, work, post=None):
        """fork a successor of a builtin call: path condition += cond, call result = retval"""
        o = st.fork(); o.pc.append(cond); fr = o.frames[-1]
        if x['dst'] is not None and x['ty'].k != 'void': fr.loc[x['dst']] = retval
        if post is not None: post(o)
        if x.get('normal') is not None: s.jump(o, fr, x['normal'])
        work.append(o); s.stats['forks'] += 1

    def fresh(s, st, name, w):
        s.nondet_n += 1
        v = z3.BitVec('%s_%d' % (name, len(st.inputs)), w) if w else None
        return v

    def builtin(s, st, fr, name, a, x, work):
        if name.startswith('llvm.lifetime') or name.startswith('llvm.invariant') or name.startswith('llvm.experimental.noalias') or name.startswith('llvm.assume') or name in ('__cxa_atexit',): return 0
        if name.startswith('nondet_'):
            w = x['ty'].bits
            if w == 1:
                v = z3.Bool('in%d_%s' % (len(st.inputs), name[7:])); st.inputs.append(v); return v
            v = z3.BitVec('in%d_%s' % (len(st.inputs), name[7:]), w); st.inputs.append(v); return v
        if name == 'nondet_double' or name == 'verif_nondet_double':
            pass
        if name == 'verif_nondet_real':
            v = z3.Real('in%d_real' % len(st.inputs)) if s.fpmode == 'real' else z3.FP('in%d_fp' % len(st.inputs), z3.Float64()); st.inputs.append(v); return v
        if name == '__CPROVER_assume':
            c = s.tobool(a[0])
            if isinstance(c, bool):
                return 0 if c else 'infeasible'
            if s.sat(st, c, soft=True) is None: return 'infeasible'
            s.assume(st, c); return 0
        if name == '__VERIFIER_assert':
            site = '%s:%s:%d' % (fr.fn, fr.lab, fr.idx)
            s.stats['assert_sites'][site] = s.stats['assert_sites'].get(site, 0) + 1
            s.stats['assert_checks'] += 1
            c = s.tobool(a[0])
            if isinstance(c, bool):
                if not c: raise Violation('assert', 'harness assertion violated at ' + site, st)
                return 0
            if s.fpmode == 'real':
                # polynomial identities: expanding both sides into sums of monomials often closes the obligation without search
                try:
                    c2 = z3.simplify(c, som=True, som_blowup=100000000, arith_lhs=True)
                    if z3.is_true(c2): s.stats['closed_by_normalisation'] = s.stats.get('closed_by_normalisation', 0) + 1; return 0
                except z3.Z3Exception: pass
            if s.fpmode == 'real' and s.rat_identity(st, c): s.stats['closed_by_ratfun'] = s.stats.get('closed_by_ratfun', 0) + 1; return 0
            if s.fpmode == 'real' and len(st.pc) > 8 and s.assert_relaxed_unsat(st, z3.Not(c)): return 0
            m = s.sat(st, z3.Not(c))
            if m is not None: raise Violation('assert', 'harness assertion violated at ' + site, st, m)
            return 0
        if name == 'verif_concretize':
            v = a[0]
            if isc(v): return v
            s.assume(st, z3.ULE(v, z3.BitVecVal(a[1], 64)))
            vals = s.feasible_values(st, v, 4096)
            for k in vals[:-1]: s.fork_ret(st, x, v == z3.BitVecVal(k, 64), k & ((1 << 64) - 1), work)
            s.assume(st, v == z3.BitVecVal(vals[-1], 64)); return vals[-1] & ((1 << 64) - 1)
        if name == 'verif_observe':
            st.obs.append((a[0], a[1])); return 0
        if name in ('_Znwm', '_Znam', 'malloc'):
            n = a[0]
            if not isc(n):
                s.stats['stubs'].add('operator new with a symbolic size -> object whose size is that term (accesses checked against it)')
                return Ptr(s.new_obj(st, n, 'heap(symbolic size)@%s' % fr.fn), 0)
            return Ptr(s.new_obj(st, n, 'heap@%s' % fr.fn), 0)
        if name in ('_ZdlPv', '_ZdaPv', 'free', '_ZdlPvm'):
            p = a[0]
            if p.obj == 0: return 0
            o = s.wobj(st, p.obj)
            if o.freed: raise Violation('memory', 'double free', st)
            if not isc(p.off):
                m = s.sat(st, p.off != 0)
                if m is not None: raise Violation('memory', 'free of a pointer into the middle of an object', st, m)
            elif p.off != 0: raise Violation('memory', 'free of non-heap pointer', st)
            if o.kind != 'heap': raise Violation('memory', 'free of non-heap pointer', st)
            o.freed = True; return 0
        if name.startswith('llvm.memcpy') or name.startswith('llvm.memmove'):
            n = a[2]; src = a[1]; dst = a[0]
            if not (isc(n) and isc(src.off) and isc(dst.off)):
                # symbolic length or source/destination offset: one path per feasible (length, offsets) triple (model-guided enumeration)
                if src.obj == 0 or dst.obj == 0:
                    if isc(n) or s.sat(st, n != 0) is not None: raise Violation('memory', 'memcpy through a null pointer', st)
                    return 0
                def B(v): return z3.BitVecVal(v, 64) if isc(v) else v
                def val(m, v): return v if isc(v) else m.eval(v, model_completion=True).as_long()
                feas = []; block = []
                while True:
                    m = s.sat(st, z3.And(*block) if block else None)
                    if m is None: break
                    n_ = val(m, n); so_ = val(m, src.off); do_ = val(m, dst.off)
                    cnd = z3.And(B(n) == z3.BitVecVal(n_, 64), B(src.off) == z3.BitVecVal(so_, 64), B(dst.off) == z3.BitVecVal(do_, 64))
                    feas.append((cnd, n_, so_, do_)); block.append(z3.Not(cnd))
                    if len(feas) > 64: raise Violation('unsupported', 'memcpy with more than 64 feasible (length, offset) combinations', st)
                if not feas: return 'infeasible'
                def again(state, n_, so_, do_): s.builtin(state, state.frames[-1], name, [Ptr(dst.obj, do_), Ptr(src.obj, so_), n_] + list(a[3:]), x, work)
                for cnd, n_, so_, do_ in feas[:-1]: s.fork_ret(st, x, cnd, 0, work, post=lambda o, t=n_, u=so_, v=do_: again(o, t, u, v))
                cnd, n_, so_, do_ = feas[-1]; s.assume(st, cnd); n = n_; src = Ptr(src.obj, so_); dst = Ptr(dst.obj, do_)
            if n == 0: return 0
            if n >= (1 << 63): raise Violation('memory', 'memcpy with a negative length', st)
            s.check_access(st, src, n, 'memcpy-src'); s.check_access(st, dst, n, 'memcpy-dst')
            so = st.objs[src.obj]
            # copy cells fully inside the range, bytes otherwise
            # fast path: preserve whole cells
            whole = {co - src.off: (csz, cv) for co, (csz, cv) in so.cells.items() if co >= src.off and co + csz <= src.off + n}
            covered = set()
            for ro, (csz, cv) in whole.items(): covered.update(range(ro, ro + csz))
            vals = {i: s.load_cell(st, so, src.off + i, 1, I8) for i in range(n) if i not in covered}
            do = s.wobj(st, dst.obj); s.kill(do, dst.off, n)
            covered = set()
            for ro, (csz, cv) in whole.items():
                do.cells[dst.off + ro] = (csz, cv); covered.update(range(ro, ro + csz))
            for i in range(n):
                if i not in covered: do.cells[dst.off + i] = (1, vals[i])
            return 0
        if name.startswith('llvm.memset'):
            n = a[2]
            if not isc(n):
                # zero-fill of a whole fresh allocation whose size is the same symbolic term (std::vector<T>(n)): the object becomes zero-initialised
                o = st.objs.get(a[0].obj)
                if o is not None and isc(a[0].off) and isc(a[1]) and a[1] == 0 and not isc(o.size) and all(s.is_zero(cv) for (_, cv) in o.cells.values()) \
                        and s.sat(st, z3.BitVecVal(a[0].off, 64) + n != o.size) is None:
                    o = s.wobj(st, a[0].obj); o.zf = True; return 0      # zero-fill up to the end of a fresh allocation of symbolic size
                if o is not None and s.sat(st, n != 0) is None: return 0
                raise Violation('unsupported', 'symbolic memset length', st)
            if n == 0: return 0
            s.check_access(st, a[0], n, 'memset')
            do = s.wobj(st, a[0].obj); s.kill(do, a[0].off, n)
            for i in range(n): do.cells[a[0].off + i] = (1, a[1])
            return 0
        if name == 'llvm.bswap.i32' or name == 'llvm.bswap.i64':
            w = 32 if name.endswith('32') else 64; v = a[0]
            if isc(v): return int.from_bytes(v.to_bytes(w // 8, 'little'), 'big')
            return z3.simplify(z3.Concat(*[z3.Extract(8 * i + 7, 8 * i, v) for i in range(w // 8)]))
        if name.startswith('llvm.fmuladd') or name.startswith('llvm.fabs') or name in LIBM or (name.startswith('llvm.') and name.endswith('.f64') and name[5:-4] in LIBM):
            a = [s.fpv(v) for v in a]
        if name.startswith('llvm.fmuladd'):
            return a[0] * a[1] + a[2] if s.fpmode == 'real' else z3.fpAdd(z3.RNE(), z3.fpMul(z3.RNE(), a[0], a[1]), a[2])
        if name.startswith('llvm.fabs') or name in ('fabs', 'fabsf'):
            if s.fpmode != 'real': return z3.fpAbs(a[0])
            if isinstance(a[0], NonFinite): return NonFinite(abs(a[0].x))
            v = z3.simplify(a[0])
            if len(v.sexpr()) < 4000: return z3.If(v >= 0, v, -v)
            if z3.is_rational_value(v): return v if v.numerator_as_long() >= 0 else -v
            # fork on the sign (keeps each path's value a polynomial, which the normalisation pre-pass can close)
            c = v >= 0; nc = z3.Not(c)
            ma = s.sat(st, c, soft=True); mb = s.sat(st, nc, soft=True)
            if ma is not None and mb is not None:
                s.fork_ret(st, x, nc, -v, work); s.assume(st, c); st.model = ma; return v
            if ma is not None: s.assume(st, c); return v
            if mb is not None: s.assume(st, nc); return -v
            return 'infeasible'
        if name.startswith('llvm.abs.i'):
            c = s.icmp(st, 'slt', x['ty'], a[0], 0)
            neg = s.binop(st, 'sub', x['ty'], 0, a[0])
            return s.ite(c, neg, a[0], x['ty']) if not isinstance(c, bool) else (neg if c else a[0])
        mm = re.match(r'llvm\.(usub|uadd|ssub|sadd)\.sat\.i(\d+)', name)
        if mm:
            w = int(mm.group(2)); A = s.bv(a[0], w); B = s.bv(a[1], w); M = (1 << w) - 1; kind = mm.group(1)
            if kind == 'usub': r = z3.If(z3.UGE(A, B), A - B, z3.BitVecVal(0, w))
            elif kind == 'uadd': r = z3.If(z3.ULT(A + B, A), z3.BitVecVal(M, w), A + B)
            else:
                wide = (z3.SignExt(1, A) + z3.SignExt(1, B)) if kind == 'sadd' else (z3.SignExt(1, A) - z3.SignExt(1, B))
                mx = z3.BitVecVal((1 << (w - 1)) - 1, w + 1); mn = z3.BitVecVal(-(1 << (w - 1)), w + 1)
                r = z3.Extract(w - 1, 0, z3.If(wide > mx, mx, z3.If(wide < mn, mn, wide)))
            r = z3.simplify(r)
            return r.as_long() if z3.is_bv_value(r) else r
        mm = re.match(r'llvm\.(ctlz|cttz|ctpop)\.i(\d+)', name)
        if mm:
            w = int(mm.group(2)); v = a[0]
            if isc(v):
                if mm.group(1) == 'ctpop': return bin(v).count('1')
                if v == 0: return w
                return (w - v.bit_length()) if mm.group(1) == 'ctlz' else ((v & -v).bit_length() - 1)
            res = z3.BitVecVal(w, w)
            rng = range(w) if mm.group(1) == 'ctlz' else range(w - 1, -1, -1)     # last assignment wins: highest (ctlz) / lowest (cttz) set bit
            if mm.group(1) == 'ctpop':
                res = z3.BitVecVal(0, w)
                for i in range(w): res = res + z3.ZeroExt(w - 1, z3.Extract(i, i, v))
                return z3.simplify(res)
            for i in rng:
                res = z3.If(z3.Extract(i, i, v) == 1, z3.BitVecVal((w - 1 - i) if mm.group(1) == 'ctlz' else i, w), res)
            return z3.simplify(res)
        mm = re.match(r'llvm\.(smax|smin|umax|umin)\.i(\d+)', name)
        if mm:
            c = s.icmp(st, {'smax': 'sgt', 'smin': 'slt', 'umax': 'ugt', 'umin': 'ult'}[mm.group(1)], x['ty'], a[0], a[1])
            return s.ite(c, a[0], a[1], x['ty']) if not isinstance(c, bool) else (a[0] if c else a[1])
        if name in LIBM or (name.startswith('llvm.') and name.endswith('.f64') and name[5:-4] in LIBM):
            base = name.replace('llvm.', '').replace('.f64', '')
            s.stats['stubs'].add('libm:' + base + ' (uninterpreted)')
            srt = z3.RealSort() if s.fpmode == 'real' else z3.Float64()
            key = (base, len(a))
            if key not in s.uf: s.uf[key] = z3.Function('uf_' + base, *([srt] * len(a) + [srt]))
            r = s.uf[key](*a)
            if s.fpmode == 'real':
                # the few libm facts every harness may rely on (stated in the evidence): positivity / defining identity
                if base == 'sqrt': s.assume(st, z3.And(r >= 0, z3.Implies(a[0] >= 0, r * r == a[0])))
                elif base == 'exp':
                    s.assume(st, r > 0)
                    lg = s.uf.setdefault(('log', 1), z3.Function('uf_log', srt, srt)); s.assume(st, lg(r) == a[0])          # log(exp t) = t
                elif base == 'log':
                    ep = s.uf.setdefault(('exp', 1), z3.Function('uf_exp', srt, srt)); s.assume(st, z3.Implies(a[0] > 0, ep(r) == a[0]))   # exp(log t) = t
                elif base in ('cosh', 'sinh'):
                    # cosh >= 1, cosh^2 - sinh^2 = 1, sinh has the sign of its argument
                    ch = s.uf.setdefault(('cosh', 1), z3.Function('uf_cosh', srt, srt)); sh = s.uf.setdefault(('sinh', 1), z3.Function('uf_sinh', srt, srt))
                    c_, s_ = ch(a[0]), sh(a[0])
                    s.assume(st, z3.And(c_ >= 1, c_ * c_ - s_ * s_ == 1, z3.Implies(a[0] > 0, s_ > 0), z3.Implies(a[0] < 0, s_ < 0), z3.Implies(a[0] == 0, s_ == 0)))
                elif base == 'pow': s.assume(st, z3.Implies(a[0] > 0, r > 0))
            return r
        if name in ('memcmp', 'bcmp'):
            n = a[2]
            if not isc(n): raise Violation('unsupported', 'symbolic memcmp length', st)
            res = 0
            for i in reversed(range(n)):
                x1 = s.load_val(st, Ptr(a[0].obj, a[0].off + i), I8); x2 = s.load_val(st, Ptr(a[1].obj, a[1].off + i), I8)
                if isc(x1) and isc(x2):
                    if x1 != x2: res = (0xffffffff if x1 < x2 else 1)
                    continue
                X1 = s.bv(x1, 8); X2 = s.bv(x2, 8)
                res = z3.If(X1 == X2, s.bv(res, 32), z3.If(z3.ULT(X1, X2), z3.BitVecVal(0xffffffff, 32), z3.BitVecVal(1, 32)))
            return res
        if name in ('__assert_fail', 'abort', '_ZSt9terminatev', '__cxa_pure_virtual', '__stack_chk_fail'):
            what = name
            if name == '__assert_fail':
                try:
                    p = a[0]; bs = []
                    for i in range(200):
                        b = s.load_val(st, Ptr(p.obj, p.off + i), I8)
                        if not isc(b) or b == 0: break
                        bs.append(b)
                    what = 'assert(' + bytes(bs).decode('latin1') + ')'
                except Exception: pass
            raise Violation('abort', 'program aborts: ' + what, st)
        if name == '__errno_location':
            if not hasattr(st, 'errno_obj') or st.errno_obj not in st.objs:
                st.errno_obj = s.new_obj(st, 4, 'errno', kind='zero')
            return Ptr(st.errno_obj, 0)
        if name in ('getenv', 'secure_getenv'):
            s.stats['stubs'].add('getenv -> NULL (no environment)'); return NULL
        if name in ('isdigit', 'isalpha', 'isalnum', 'isspace', 'isupper', 'islower', 'toupper', 'tolower', 'isprint', 'ispunct', 'isxdigit'):
            s.stats['stubs'].add('<cctype> ' + name + ' -> C locale definition')
            c = a[0]
            if isc(c):
                ch = c & 0xffffffff; ch = ch if ch < 256 else -1
                import string as _st
                cs = chr(ch) if 0 <= ch < 128 else ''
                if name == 'toupper': return ord(cs.upper()) if cs else c
                if name == 'tolower': return ord(cs.lower()) if cs else c
                return int({'isdigit': cs.isdigit(), 'isalpha': cs.isalpha() and cs != '', 'isalnum': cs.isalnum() and cs != '', 'isspace': cs in ' \t\n\v\f\r' and cs != '',
                            'isupper': cs.isupper(), 'islower': cs.islower(), 'isprint': 32 <= ch < 127, 'ispunct': cs in _st.punctuation and cs != '', 'isxdigit': cs in _st.hexdigits and cs != ''}[name])
            def rng(lo, hi): return z3.And(z3.UGE(c, z3.BitVecVal(lo, 32)), z3.ULE(c, z3.BitVecVal(hi, 32)))
            up = rng(65, 90); lowr = rng(97, 122); dig = rng(48, 57)
            if name == 'toupper': return z3.If(lowr, c - 32, c)
            if name == 'tolower': return z3.If(up, c + 32, c)
            cond = {'isdigit': dig, 'isalpha': z3.Or(up, lowr), 'isalnum': z3.Or(up, lowr, dig), 'isspace': z3.Or(c == 32, rng(9, 13)), 'isupper': up, 'islower': lowr, 'isprint': rng(32, 126),
                    'ispunct': z3.Or(rng(33, 47), rng(58, 64), rng(91, 96), rng(123, 126)), 'isxdigit': z3.Or(dig, rng(65, 70), rng(97, 102))}[name]
            return z3.If(cond, z3.BitVecVal(1, 32), z3.BitVecVal(0, 32))
        if name == '__cxa_guard_acquire':
            # function-local static: initialise when the guard byte is still 0
            g = s.load_val(st, a[0], I8)
            return 1 if (isc(g) and g == 0) else 0
        if name == '__cxa_guard_release':
            s.store_val(st, a[0], I8, 1); return 0
        if name == '__cxa_guard_abort': return 0
        if name in ('_ZNSt6chrono3_V212system_clock3nowEv', '_ZNSt6chrono3_V212steady_clock3nowEv', 'time', 'clock'):
            s.stats['stubs'].add('clock -> 0 (timing is never the subject)'); return 0
        if name in ('strtof', 'strtod'):
            s.stats['stubs'].add(name + ' -> exact conversion of concrete text (Python float)')
            bs = []
            for i in range(64):
                b = s.load_val(st, Ptr(a[0].obj, a[0].off + i), I8)
                if not isc(b): raise Violation('unsupported', name + ' over symbolic bytes', st)
                if b == 0: break
                bs.append(b)
            txt = bytes(bs).decode('latin1'); mm2 = re.match(r'\s*[-+]?(\d+\.?\d*([eE][-+]?\d+)?|\.\d+([eE][-+]?\d+)?|inf|nan)', txt, re.I)
            val = float(mm2.group(0)) if mm2 else 0.0
            # errno = ERANGE as glibc sets it: overflow to infinity from finite text, or a non-zero result below the smallest normal number
            lim = 1.1754943508222875e-38 if name == 'strtof' else 2.2250738585072014e-308
            huge = 3.4028234663852886e38 if name == 'strtof' else 1.7976931348623157e308
            if mm2 and not re.search(r'inf|nan', mm2.group(0), re.I) and ((val != 0.0 and abs(val) < lim) or abs(val) > huge or (val == 0.0 and re.search(r'[1-9]', mm2.group(0).split('e')[0].split('E')[0]))):
                s.store_val(st, s.builtin(st, fr, '__errno_location', [], x, work), I32, 34)
            if len(a) > 1 and isinstance(a[1], Ptr) and a[1].obj != 0: s.store_val(st, a[1], PTR(I8), Ptr(a[0].obj, a[0].off + (mm2.end() if mm2 else 0)))
            if name == 'strtof':
                val = struct.unpack('<f', struct.pack('<f', val))[0]
                return s.fpconst(val, T('float')) if s.fpmode == 'real' else z3.FPVal(val, z3.Float32())
            return s.fpconst(val, T('double'))
        if name == 'difftime':
            s.stats['stubs'].add('difftime(a,b) = (double)a - (double)b')
            def tod(v):
                if isc(v):
                    if v >> 63: v -= 1 << 64
                    return z3.RealVal(v) if s.fpmode == 'real' else z3.FPVal(float(v), z3.Float64())
                return z3.ToReal(z3.BV2Int(v, is_signed=True)) if s.fpmode == 'real' else z3.fpSignedToFP(z3.RNE(), v, z3.Float64())
            return tod(a[0]) - tod(a[1]) if s.fpmode == 'real' else z3.fpSub(z3.RNE(), tod(a[0]), tod(a[1]))
        if name == 'memchr':
            n = a[2]
            if not isc(n): raise Violation('unsupported', 'symbolic memchr length', st)
            res = NULL; 
            # first matching byte: build from the back so that the earliest match wins
            found = None
            for i in reversed(range(n)):
                b = s.load_val(st, Ptr(a[0].obj, a[0].off + i), I8)
                c = a[1] & 0xff if isc(a[1]) else z3.Extract(7, 0, a[1])
                if isc(b) and isc(c):
                    if b == c: found = ('c', i)
                    continue
                cond = (s.bv(b, 8) == s.bv(c, 8))
                found = ('s', i, cond, found)
            # resolve: concrete-only chains return directly; symbolic conditions fork
            def resolve(f):
                if f is None: return NULL
                if f[0] == 'c': return Ptr(a[0].obj, a[0].off + f[1])
                _, i, cond, rest = f
                ma = s.sat(st, cond); mb = s.sat(st, z3.Not(cond))
                if ma is not None and mb is not None:
                    s.fork_ret(st, x, cond, Ptr(a[0].obj, a[0].off + i), work); s.assume(st, z3.Not(cond)); return resolve(rest)
                if ma is not None: s.assume(st, cond); return Ptr(a[0].obj, a[0].off + i)
                s.assume(st, z3.Not(cond)); return resolve(rest)
            return resolve(found)
        if name == 'strcmp':
            i = 0
            while True:
                c1 = s.load_val(st, Ptr(a[0].obj, a[0].off + i), I8); c2 = s.load_val(st, Ptr(a[1].obj, a[1].off + i), I8)
                if not (isc(c1) and isc(c2)): raise Violation('unsupported', 'strcmp over symbolic bytes', st)
                if c1 != c2: return 1 if c1 > c2 else 0xffffffff
                if c1 == 0: return 0
                i += 1
        if name == 'strlen':
            p = a[0]; o = s.check_access(st, p, 1, 'strlen'); i = 0
            while True:
                b = s.load_val(st, Ptr(p.obj, p.off + i), I8)
                if isc(b):
                    if b == 0: return i
                else:
                    # a symbolic byte that may be NUL ends the string on a forked path
                    z = b == z3.BitVecVal(0, 8)
                    if s.sat(st, z) is not None:
                        if s.sat(st, z3.Not(z)) is None: return i
                        s.fork_ret(st, x, z, i, work)
                        s.assume(st, z3.Not(z))
                i += 1
        if name == '__cxa_allocate_exception':
            return Ptr(s.new_obj(st, a[0], 'exception'), 0)
        if name == '__cxa_throw':
            ti = a[1]
            st.exc = (a[0], st.objs[ti.obj].name if ti.obj in st.objs else '?')
            if os.environ.get('VERIF_DEBUG_THROW'): sys.stderr.write('THROW %s at %s\n' % (st.exc[1], [f.fn for f in st.frames]))
            raise Throw()
        if name.startswith('_ZSt') and '__throw_' in name:
            m2 = {'length_error': '_ZTISt12length_error', 'out_of_range': '_ZTISt12out_of_range', 'bad_alloc': '_ZTISt9bad_alloc', 'invalid_argument': '_ZTISt16invalid_argument',
                  'logic_error': '_ZTISt11logic_error', 'bad_function_call': '_ZTISt17bad_function_call', 'bad_array_new_length': '_ZTISt9bad_alloc', 'bad_cast': '_ZTISt8bad_cast'}
            ti = [v for k, v in m2.items() if k in name]
            eobj = Ptr(s.new_obj(st, 16, 'exception'), 0)
            s.store_val(st, eobj, PTR(I8), Ptr(s.exc_vtable(st), 0))
            st.exc = (eobj, ti[0] if ti else '_ZTISt9exception')
            if os.environ.get('VERIF_DEBUG_THROW'): sys.stderr.write('THROW %s at %s\n' % (name, [f.fn for f in st.frames]))
            raise Throw()
        if name == '_ZSt17current_exceptionv':
            # std::current_exception(): the exception object being handled (exception_ptr holds one pointer); reference counting is not modelled
            cur = st.exc[0] if getattr(st, 'exc', None) else NULL
            s.store_val(st, a[0], PTR(I8), cur); return 0
        if name in ('_ZNSt15__exception_ptr13exception_ptr9_M_addrefEv', '_ZNSt15__exception_ptr13exception_ptr10_M_releaseEv'): return 0
        if name in ('_ZNSt16nested_exceptionD2Ev', '_ZNSt16nested_exceptionD1Ev'): return 0
        if name == '__dynamic_cast':
            # dynamic type from the object's vptr (Itanium ABI: typeinfo pointer one word in front of the address point, offset-to-top two words);
            # single-inheritance chains only (the __si_class_type_info base links that exception matching also walks)
            p = a[0]
            if p.obj == 0: return NULL
            vp = s.load_val(st, p, PTR(I8))
            if not isinstance(vp, Ptr) or vp.obj not in st.objs: raise Violation('unsupported', '__dynamic_cast on an object without a modelled vtable', st)
            ti = s.load_val(st, Ptr(vp.obj, vp.off - 8), PTR(I8)); top = s.load_val(st, Ptr(vp.obj, vp.off - 16), I64)
            if not isinstance(ti, Ptr) or ti.obj not in st.objs or not isc(top): raise Violation('unsupported', '__dynamic_cast: vtable without typeinfo', st)
            dyn = st.objs[ti.obj].name; want = st.objs[a[2].obj].name
            t = dyn
            for _ in range(8):
                g = s.m.globals.get(t)
                if g is not None and g['init'] is not None and g['init'].k == 'agg' and len(g['init'].elems) > 3: raise Violation('unsupported', '__dynamic_cast through multiple/virtual inheritance (%s)' % t, st)
                if t == want: break
                nxt = None
                if g is not None and g['init'] is not None and g['init'].k == 'agg' and len(g['init'].elems) == 3:
                    b = g['init'].elems[2]
                    while b.k == 'cexpr': b = b.ops[0]
                    if b.k == 'global': nxt = b.name
                if nxt is None: return NULL
                t = nxt
            else: return NULL
            if top >= (1 << 63): top -= 1 << 64
            return Ptr(p.obj, p.off + top)
        if name == '__cxa_rethrow': raise Throw()
        if name == '__cxa_begin_catch': return a[0]
        if name in ('__cxa_end_catch', '__cxa_free_exception'): return 0
        if name == 'llvm.eh.typeid.for':
            p = a[0]; return p.obj
        if re.match(r'_ZNSt\d+(runtime_error|invalid_argument|logic_error|out_of_range|length_error|domain_error|range_error|overflow_error|underflow_error)C[12]E', name):
            # std exception constructed by library code we do not execute: give it a vtable whose what() returns an empty message
            s.store_val(st, a[0], PTR(I8), Ptr(s.exc_vtable(st), 0)); return 0
        if re.match(r'_ZNSt\d+(runtime_error|invalid_argument|logic_error|out_of_range|length_error|domain_error|range_error|overflow_error|underflow_error)D[012]E', name): return 0
        if name in ('_ZNSt9exceptionD2Ev', '_ZNSt9exceptionD1Ev'): return 0
        if name == '__verif_exc_dtor': return 0
        if name == '__verif_exc_what':
            eo = getattr(st, 'exc_msg', None)
            if eo is None or eo not in st.objs:
                eo = s.new_obj(st, 1, 'empty what() message', kind='zero'); st.exc_msg = eo
            return Ptr(eo, 0)
        if name.startswith('_ZN3Opm6OpmLog'): return 0
        import cxxrt
        r = cxxrt.builtin(s, st, fr, name, a, x, work)
        if r is not cxxrt.NOT: return r
        raise Violation('unsupported', 'external function ' + name, st)

class NonFinite:
    """an infinity / NaN constant in fp mode 'real' (reals have none): may be stored, loaded, compared; arithmetic on it is unsupported"""
    def __init__(s, x): s.x = x
    def __repr__(s): return 'NonFinite(%r)' % s.x
    def __neg__(s): return NonFinite(-s.x)          # -inf / -nan: still a non-finite constant
class _Undecided:
    def eval(s, *a, **k): raise z3.Z3Exception('no model')
UNDECIDED = _Undecided()
class PathEnd(Exception): pass
class Throw(Exception): pass

LIBM = {'sqrt', 'log', 'exp', 'pow', 'sin', 'cos', 'tan', 'atan', 'atan2', 'log10', 'sinh', 'cosh', 'asin', 'acos', 'tanh', 'asinh', 'acosh', 'atanh', 'cbrt', 'log2', 'exp2', 'log1p', 'expm1', 'erf', 'hypot'}
BIN = {'add', 'sub', 'mul', 'udiv', 'sdiv', 'urem', 'srem', 'shl', 'lshr', 'ashr', 'and', 'or', 'xor'}

def model_inputs(v):
    out = []
    if v.st is None: return out
    for i in v.st.inputs:
        val = None
        if v.model is not None:
            try:
                e = v.model.eval(i, model_completion=True)
                if z3.is_true(e): val = 1
                elif z3.is_false(e): val = 0
                elif z3.is_bv_value(e): val = e.as_long()
                elif z3.is_rational_value(e): val = [e.numerator_as_long(), e.denominator_as_long()]
                elif z3.is_algebraic_value(e): val = e.approx(20).as_decimal(30)
                elif z3.is_fp(e):
                    bvv = v.model.eval(z3.fpToIEEEBV(e), model_completion=True); val = {'fpbits': bvv.as_long()} if z3.is_bv_value(bvv) else str(e)
                else: val = str(e)
            except Exception as ex: val = 'eval-error: %s' % ex
        out.append([str(i), val])
    return out

def main():
    import argparse, json
    from collections import Counter
    ap = argparse.ArgumentParser()
    ap.add_argument('ll'); ap.add_argument('entry')
    ap.add_argument('--fp', default='real'); ap.add_argument('--maxsteps', type=int, default=400000); ap.add_argument('--loopmax', type=int, default=64)
    ap.add_argument('--json'); ap.add_argument('--timeout', type=float, default=0); ap.add_argument('--qtimeout', type=int, default=15000); ap.add_argument('--qtimeout2', type=int, default=120000)
    ap.add_argument('--allow-uncaught', action='store_true'); ap.add_argument('--trace', action='store_true'); ap.add_argument('--ctors', action='store_true')
    a = ap.parse_args()
    t0 = time.time()
    m = parse_module(open(a.ll).read())
    ex = Exec(m, a.fp, a.maxsteps, a.loopmax)
    ex.solver.set('timeout', a.qtimeout); ex.qtimeout = a.qtimeout; ex.qtimeout2 = a.qtimeout2
    ex.deadline = t0 + a.timeout if a.timeout else None
    ex.allow_uncaught = a.allow_uncaught; ex.trace = a.trace
    status = 'OK'; v = None; results = []; allsamples = []; per_entry = {}
    if a.ctors:
        try: ex.run_ctors()
        except Violation as v0:
            status = 'VIOLATION'; v = v0; v.msg = '[static constructors] ' + v.msg
    for ent in (a.entry.split(',') if v is None else []):
        if ent not in m.funcs or m.funcs[ent]['blocks'] is None:
            status = 'VIOLATION'; v = Violation('unsupported', 'entry %s not defined in module' % ent, None); break
        q0 = ex.stats['queries']; c0 = ex.stats['assert_checks']
        status, v, res = ex.run(ent)
        results += res; allsamples += [dict(x, entry=ent) for x in ex.samples[:2]]
        per_entry[ent] = dict(paths=len(res), queries=ex.stats['queries'] - q0, assert_checks=ex.stats['assert_checks'] - c0)
        if v is not None:
            v.msg = '[%s] %s' % (ent, v.msg); break
    ex.samples = allsamples
    dt = time.time() - t0
    nsites = 0
    for fn, blks in ex.blocks.items():
        for lab, ins in blks.items():
            for x in ins:
                if x['op'] in ('call', 'invoke') and x['callee'].k == 'global' and x['callee'].name == '__VERIFIER_assert': nsites += 1
    st = ex.stats
    out = dict(status=status, entry=a.entry, fp=a.fp, paths=st['paths'], outcomes=dict(Counter(results)), forks=st['forks'], queries=st['queries'],
               cache_hits=st['cache_hits'], solver_s=round(st['solver_s'], 3), max_query_s=round(st['max_query_s'], 3), steps=st['steps'], wall_s=round(dt, 3),
               undecided_feasibility=st.get('undecided_feasibility', 0), relaxed_queries=st.get('relaxed_queries', 0), closed_by_normalisation=st.get('closed_by_normalisation', 0), cvc5_queries=st.get('cvc5_queries', 0), cvc5_unsat=st.get('cvc5_unsat', 0), bound_hits=st['bound_hits'], loopmax=a.loopmax, maxsteps=a.maxsteps,
               functions=sorted(st['funcs']), stubs=sorted(st['stubs']), assert_sites_total=nsites, assert_sites_reached=len(st['assert_sites']),
               assert_checks=st['assert_checks'], samples=ex.samples[:8], per_entry=per_entry)
    if v is not None:
        out['violation'] = dict(kind=v.kind, msg=v.msg, inputs=model_inputs(v),
                                stack=[[f.fn, f.lab] for f in v.st.frames] if v.st is not None else [])
    if a.json: json.dump(out, open(a.json, 'w'), indent=1)
    print('status', status, 'paths', st['paths'], 'outcomes', out['outcomes'], 'forks', st['forks'], 'queries', st['queries'], 'hits', st['cache_hits'],
          'solver_s %.2f' % st['solver_s'], 'steps', st['steps'], 'asserts %d/%d sites, %d checks' % (len(st['assert_sites']), nsites, st['assert_checks']), 'wall %.2f' % dt)
    if v is not None:
        print('VIOLATION', v.kind, v.msg)
        print('inputs:', out['violation']['inputs'])
        print('at', out['violation']['stack'])

if __name__ == '__main__':
    import llsym   # run under the module name so that cxxrt's 'from llsym import Ptr' sees the same classes
    llsym.main()
