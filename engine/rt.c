/* minimal C++ runtime model (prototype) */
int __exc_active = 0; void* __exc_ptr = 0; void* __exc_tinfo = 0;
void* __cxa_allocate_exception(uint64_t n) { void* p = malloc(n); __CPROVER_assume(p != 0); return p; }
void __cxa_free_exception(void* p) { }
void __cxa_throw(void* p, void* ti, void* dtor) { __exc_active = 1; __exc_ptr = p; __exc_tinfo = ti; }
void* __cxa_begin_catch(void* p) { __exc_active = 0; return p; }
void __cxa_end_catch(void) { }
void __cxa_rethrow(void) { __exc_active = 1; }
uint32_t __gxx_personality_v0(void) { return 0; }
uint32_t __cxa_atexit(void* f, void* a, void* d) { return 0; }
void* _Znwm(uint64_t n) { void* p = malloc(n); __CPROVER_assume(p != 0); return p; }
void* _Znam(uint64_t n) { void* p = malloc(n); __CPROVER_assume(p != 0); return p; }
void _ZdlPv(void* p) { free(p); }
void _ZdaPv(void* p) { free(p); }
void _ZdlPvm(void* p, uint64_t n) { free(p); }
void _ZSt9terminatev(void) { __CPROVER_assert(0, "std::terminate called"); __CPROVER_assume(0); }
uint8_t *_ZTISt9exception, *_ZTISt11logic_error, *_ZTISt12length_error, *_ZTISt12out_of_range, *_ZTISt9bad_alloc, *_ZTISt16invalid_argument, *_ZTISt13runtime_error;
static void __throw_std(void* ti) { __exc_active = 1; __exc_ptr = malloc(16); __exc_tinfo = ti; }
void _ZSt19__throw_logic_errorPKc(void* m) { __throw_std(&_ZTISt11logic_error); }
void _ZSt20__throw_length_errorPKc(void* m) { __throw_std(&_ZTISt12length_error); }
void _ZSt20__throw_out_of_rangePKc(void* m) { __throw_std(&_ZTISt12out_of_range); }
void _ZSt24__throw_out_of_range_fmtPKcz(void* m, ...) { __throw_std(&_ZTISt12out_of_range); }
void _ZSt24__throw_invalid_argumentPKc(void* m) { __throw_std(&_ZTISt16invalid_argument); }
void _ZSt17__throw_bad_allocv(void) { __throw_std(&_ZTISt9bad_alloc); }
void _ZSt28__throw_bad_array_new_lengthv(void) { __throw_std(&_ZTISt9bad_alloc); }
/* std exceptions: message dropped */
void _ZNSt16invalid_argumentC1ERKNSt7__cxx1112basic_stringIcSt11char_traitsIcESaIcEEE(void* t, void* s) { }
void _ZNSt16invalid_argumentD1Ev(void* t) { }
void _ZNSt13runtime_errorC1ERKNSt7__cxx1112basic_stringIcSt11char_traitsIcESaIcEEE(void* t, void* s) { }
void _ZNSt13runtime_errorD1Ev(void* t) { }
/* logging */
void _ZN3Opm6OpmLog5errorERKNSt7__cxx1112basic_stringIcSt11char_traitsIcESaIcEEE(void* s) { }
